"""C16 (bounded tier): inline tokenization tiles the source; custom tokens obey precedence rules.

Real `SpanToken` subclasses are built programmatically (pattern, precedence, parse_inner,
parse_group) which record, in `__init__`, the offsets of the regex match they were built from.
They are registered through a real renderer (`TilingRenderer(TokA, TokB, ...)`, a `BaseRenderer`
subclass with explicit `render_tok_*` methods), a one-paragraph document is parsed inside the
renderer's context, and the contracts below are evaluated on `Document(text).children[0].children`.

Contracts (names used in failure keys):
  noraise      parsing / rendering does not raise
  order        (1) at every level the custom tokens are in source order and pairwise disjoint
  inside       (2) children lie inside their parent's parse group (and top level inside the text)
  tiling       (3) raw text + delimiters + children, concatenated, give back the source text exactly
               (checked on the tree from the recorded offsets, and again through the renderer:
               `renderer.render(doc) == text`, every render method emitting only its delimiters)
  candidate    every token in the tree is one of the regex candidates (computed here with `re`)
  resolution   (4) the surviving tokens are the ones the statement prescribes
  isolated     (4') a candidate overlapping no other candidate survives at top level
  context      (5) after `__exit__` the same text parses to plain raw text and the span token
               list is the default one

Oracle for (4), pairs (exactly one candidate per type; written from the property statement):
  disjoint (incl. "meets")            -> both survive, in source order
  y inside x's parse group            -> x survives, with y as its only child iff x.parse_inner
                                         (if each is inside the other's group either nesting is
                                         accepted)
  otherwise (conflict)                -> higher precedence survives alone; equal precedence: the
                                         one starting earlier; equal start too: either one.
Oracle for (4), sets: the same three rules applied in one left-to-right pass over the candidates
sorted by start (candidates with equal start: every order is tried, the observed tree must equal
one of the results); children of a survivor are resolved recursively among the candidates that
lie inside its parse group.
"""
import html as _html
import itertools
import random
import re

from runtime.common import use_repo, pool_map, chunks

use_repo()

from mistletoe import Document, block_token, span_token  # noqa: E402
from mistletoe.base_renderer import BaseRenderer  # noqa: E402

NAMES = ['TokA', 'TokB', 'TokC', 'TokD']
PRECS = [3, 4, 5, 6, 7]
WRAP_PRECS = [4, 5, 6]


# ------------------------------------------------------------------------------------------------
# real token classes and the renderer they are registered through

def make_token_class(name, pattern, precedence, parse_inner, parse_group):
    def __init__(self, match):
        self.m_start, self.m_end = match.start(), match.end()
        self.pg_start, self.pg_end = match.start(parse_group), match.end(parse_group)
        self.src = match.string
        if not parse_inner:
            self.content = match.group(parse_group)
    return type(name, (span_token.SpanToken,), {
        'pattern': re.compile(pattern), 'precedence': precedence, 'parse_inner': parse_inner,
        'parse_group': parse_group, '__init__': __init__, 'is_custom': True})


class TilingRenderer(BaseRenderer):
    """Every custom token renders as <its opening delimiter><inner><its closing delimiter>."""

    def _tok(self, t):
        inner = self.render_inner(t) if t.children is not None else t.content
        return t.src[t.m_start:t.pg_start] + inner + t.src[t.pg_end:t.m_end]

    def render_tok_a(self, t):
        return self._tok(t)

    def render_tok_b(self, t):
        return self._tok(t)

    def render_tok_c(self, t):
        return self._tok(t)

    def render_tok_d(self, t):
        return self._tok(t)


def default_span_types():
    return [getattr(span_token, n) for n in span_token.__all__]


# ------------------------------------------------------------------------------------------------
# candidates (computed independently with `re`) and the oracle

class Cand:
    __slots__ = ('name', 's', 'e', 'ps', 'pe', 'prec', 'pi', 'order')

    def __init__(self, name, s, e, ps, pe, prec, pi, order):
        self.name, self.s, self.e, self.ps, self.pe = name, s, e, ps, pe
        self.prec, self.pi, self.order = prec, pi, order

    def key(self):
        return (self.name, self.s, self.e)


def candidates(text, types):
    """types: list of (name, pattern, prec, parse_inner, parse_group) in REGISTRATION order.
    `order` = rank in the active token list (later registered extras are listed first)."""
    out = []
    n = len(types)
    for i, (name, pattern, prec, pi, pg) in enumerate(types):
        for m in re.compile(pattern).finditer(text):
            out.append(Cand(name, m.start(), m.end(), m.start(pg), m.end(pg), prec, pi, n - 1 - i))
    return out


def leaf(c, kids=()):
    return (c.name, c.s, c.e, tuple(kids))


def expected_pair(a, b):
    """Set of acceptable trees (tuples of nodes) for exactly two candidates."""
    if a.e <= b.s:
        return {(leaf(a), leaf(b))}
    if b.e <= a.s:
        return {(leaf(b), leaf(a))}
    acc = set()
    if a.ps <= b.s and b.e <= a.pe:
        acc.add((leaf(a, [leaf(b)] if a.pi else []),))
    if b.ps <= a.s and a.e <= b.pe:
        acc.add((leaf(b, [leaf(a)] if b.pi else []),))
    if acc:
        return acc
    if a.prec != b.prec:
        return {(leaf(a if a.prec > b.prec else b),)}
    if a.s != b.s:
        return {(leaf(a if a.s < b.s else b),)}
    return {(leaf(a),), (leaf(b),)}


def resolve(cands, strict_case3=True):
    """One left-to-right pass (cands already ordered)."""
    out = []
    cur = None
    pend = []

    def finish():
        kids = resolve(pend, strict_case3) if cur.pi else ()
        out.append(leaf(cur, kids))

    for y in cands:
        if cur is None:
            cur, pend = y, []
        elif y.s >= cur.e:
            finish()
            cur, pend = y, []
        elif cur.ps <= y.s and y.e <= cur.pe:
            pend.append(y)
        elif not strict_case3 and y.e <= cur.e and y.s >= cur.pe:
            pass
        elif y.prec > cur.prec:
            cur, pend = y, []
    if cur is not None:
        finish()
    return tuple(out)


def tie_orders(cands, limit=64):
    """All orderings of `cands` sorted by start, permuting equal-start groups (bounded)."""
    cands = sorted(cands, key=lambda c: (c.s, c.order))
    groups = [list(g) for _, g in itertools.groupby(cands, key=lambda c: c.s)]
    perms = [list(itertools.permutations(g)) if len(g) > 1 else [tuple(g)] for g in groups]
    total = 1
    for p in perms:
        total *= len(p)
    if total > limit:
        return None
    return [list(itertools.chain.from_iterable(combo)) for combo in itertools.product(*perms)]


def code_order(cands):
    return sorted(cands, key=lambda c: (c.s, c.order))


# ------------------------------------------------------------------------------------------------
# observing the real parse

def observed_tree(children):
    out = []
    for ch in children:
        if getattr(ch, 'is_custom', False):
            kids = observed_tree(ch.children) if ch.children is not None else ()
            out.append((type(ch).__name__, ch.m_start, ch.m_end, kids))
    return tuple(out)


def check_level(children, lo, hi, text, errs):
    """Contracts (1)-(3) at one level; returns the reconstructed string."""
    pieces = []
    cursor = lo
    prev_end = lo
    for ch in children:
        if getattr(ch, 'is_custom', False):
            if not (ch.m_start < ch.m_end and ch.m_start <= ch.pg_start <= ch.pg_end <= ch.m_end):
                errs.add('order')
            if ch.m_start < prev_end:
                errs.add('order')
            if ch.m_start < lo or ch.m_end > hi:
                errs.add('inside')
            if ch.m_start != cursor:
                errs.add('tiling')
            prev_end = max(prev_end, ch.m_end)
            if ch.children is not None:
                inner = check_level(ch.children, ch.pg_start, ch.pg_end, text, errs)
                if not type(ch).parse_inner:
                    errs.add('tiling')
            else:
                inner = getattr(ch, 'content', None)
                if type(ch).parse_inner or inner != text[ch.pg_start:ch.pg_end]:
                    errs.add('tiling')
                    inner = inner if isinstance(inner, str) else ''
            pieces.append(text[ch.m_start:ch.pg_start] + inner + text[ch.pg_end:ch.m_end])
            cursor = ch.m_end
        elif type(ch).__name__ == 'RawText':
            c = ch.content
            if text[cursor:cursor + len(c)] != c:
                errs.add('tiling')
            pieces.append(c)
            cursor += len(c)
        else:
            errs.add('tiling')  # a built-in token: the texts are chosen so that none can match
    if cursor != hi:
        errs.add('tiling')
    return ''.join(pieces)


BUILTIN_TRIGGER = re.compile(r'[\\~*_\[\]!`&\n:@|#]')


def run_case(text, types, want_pair=False):
    """types: list of (name, pattern, prec, parse_inner, parse_group), registration order.
    Returns (ncontracts, failures:list[(contract, observed, expected, cls)], nontrivial)."""
    fails = []
    ncon = 0
    if BUILTIN_TRIGGER.search(text) or text != text.strip() or not text:
        return 0, [], False, 'precondition'
    classes = [make_token_class(*t) for t in types]
    cands = candidates(text, types)
    nontrivial = any(a is not b and a.s < b.e and b.s < a.e for a in cands for b in cands)
    inside_tree = None
    try:
        with TilingRenderer(*classes) as r:
            doc = Document(text)
            ok_shape = (len(doc.children) == 1 and type(doc.children[0]).__name__ == 'Paragraph')
            if not ok_shape:
                return 0, [], False, 'precondition'
            kids = doc.children[0].children
            inside_tree = observed_tree(kids)
            rendered = r.render(doc)
            errs = set()
            rebuilt = check_level(kids, 0, len(text), text, errs)
            if rebuilt != text or rendered != text:
                errs.add('tiling')
        ncon += 1  # noraise
    except Exception as ex:  # noqa
        fails.append(('noraise', repr(ex), 'no exception', None))
        block_token.reset_tokens()
        span_token.reset_tokens()
        return 1, fails, nontrivial, None
    for c in ('order', 'inside', 'tiling'):
        ncon += 1
        if c in errs:
            fails.append((c, {'tree': inside_tree, 'rebuilt': rebuilt, 'rendered': rendered}, text, None))

    # candidate: every observed token is one of the regex candidates
    ckeys = {c.key() for c in cands}
    ncon += 1

    def flat(tree):
        for n in tree:
            yield n
            yield from flat(n[3])
    stray = [n[:3] for n in flat(inside_tree) if n[:3] not in ckeys]
    if stray:
        fails.append(('candidate', stray, sorted(ckeys), None))

    # resolution
    ncon += 1
    if want_pair == 'wrapped' and len(cands) == 3:
        outer = [c for c in cands if c.name == 'TokC'][0]
        a, b = [c for c in cands if c.name != 'TokC']
        exp = {(leaf(outer, kids),) for kids in expected_pair(a, b)}
    elif want_pair and len(cands) == 2:
        exp = expected_pair(cands[0], cands[1])
    else:
        orders = tie_orders(cands)
        if orders is None:
            exp = None
        else:
            exp = {resolve(o) for o in orders}
    if exp is not None and inside_tree not in exp:
        cls = None
        if want_pair and len(cands) in (2, 3):
            pc = [c for c in cands if c.name != 'TokC'] if len(cands) == 3 else cands
            x, y = code_order(pc)
            if _is_case3(pc):
                cls = 'relation-case3-ignores-precedence'
            elif x.s == y.s and y.ps <= x.s and x.e <= y.pe:
                cls = 'equal-start-inner-listed-first-not-nested'
        elif inside_tree == resolve(code_order(cands), strict_case3=False):
            cls = 'relation-case3-ignores-precedence'
        fails.append(('resolution', inside_tree, sorted(exp), cls))

    # isolated candidates survive at top level
    ncon += 1
    top = {n[:3] for n in inside_tree}
    lost = [c.key() for c in cands
            if not any(o is not c and o.s < c.e and c.s < o.e for o in cands) and c.key() not in top]
    if lost:
        fails.append(('isolated', lost, 'present at top level', None))

    # context: outside the renderer the tokens are gone
    ncon += 1
    try:
        types_ok = span_token._token_types == default_span_types()
        doc2 = Document(text)
        k2 = doc2.children[0].children if doc2.children else []
        plain = (len(k2) == 1 and type(k2[0]).__name__ == 'RawText'
                 and k2[0].content == _html.unescape(text)) or (not k2 and text == '')
        if not types_ok:
            block_token.reset_tokens()
            span_token.reset_tokens()
        if not (types_ok and plain):
            fails.append(('context', {'token_list_default': types_ok,
                                      'children': [type(k).__name__ for k in k2]},
                          'default list; one RawText', None))
    except Exception as ex:  # noqa
        fails.append(('context', repr(ex), 'no exception', None))
    return ncon, fails, nontrivial, None


def _is_case3(cands):
    x, y = code_order(cands)
    return y.e <= x.e and y.s >= x.pe and not (x.ps <= y.s and y.e <= x.pe) and y.prec > x.prec


# ------------------------------------------------------------------------------------------------
# domain 1: exhaustive pairs over all endpoint orderings

ALLEN = ['before', 'meets', 'overlaps', 'starts', 'during', 'finishes', 'equals',
         'after', 'met-by', 'overlapped-by', 'started-by', 'contains', 'finished-by']


def allen(a, b):
    (s1, e1), (s2, e2) = a, b
    if e1 < s2:
        return 'before'
    if e1 == s2:
        return 'meets'
    if e2 < s1:
        return 'after'
    if e2 == s1:
        return 'met-by'
    if s1 == s2 and e1 == e2:
        return 'equals'
    if s1 == s2:
        return 'starts' if e1 < e2 else 'started-by'
    if e1 == e2:
        return 'finishes' if s1 > s2 else 'finished-by'
    if s2 < s1 and e1 < e2:
        return 'during'
    if s1 < s2 and e2 < e1:
        return 'contains'
    return 'overlaps' if s1 < s2 else 'overlapped-by'


def signatures():
    """All weak orderings of the 8 endpoints (A: s<=ps<=pe<=e, s<e; same for B)."""
    n = 8
    quads = [(s, ps, pe, e) for s in range(n) for ps in range(s, n) for pe in range(ps, n)
             for e in range(pe, n) if s < e]
    sigs = set()
    for a in quads:
        for b in quads:
            used = sorted(set(a + b))
            m = {v: i for i, v in enumerate(used)}
            sigs.add((tuple(m[v] for v in a), tuple(m[v] for v in b)))
    return sorted(sigs)


LETTERS = 'abcdefgh'


def pair_text(sig):
    a, b = sig
    k = max(a + b)  # ranks 0..k -> k characters between them
    return 'p' + LETTERS[:k] + 'q'


def literal_pattern(text, q):
    s, ps, pe, e = (v + 1 for v in q)
    return re.escape(text[s:ps]) + '(' + re.escape(text[ps:pe]) + ')' + re.escape(text[pe:e])


def pair_cases():
    """Distinct effective cases: (text, typesA, typesB-independent parts...)."""
    seen = set()
    cases = []
    for sig in signatures():
        a, b = sig
        text = pair_text(sig)
        pa, pb = literal_pattern(text, a), literal_pattern(text, b)
        rel = allen((a[0], a[3]), (b[0], b[3]))
        for pga in (0, 1):
            for pgb in (0, 1):
                ea = (a[0], a[3], a[0], a[3]) if pga == 0 else (a[0], a[3], a[1], a[2])
                eb = (b[0], b[3], b[0], b[3]) if pgb == 0 else (b[0], b[3], b[1], b[2])
                k = (ea, eb)
                if k in seen:
                    continue
                seen.add(k)
                cases.append((text, pa, pb, pga, pgb, rel))
    return cases


def run_pair_chunk(chunk):
    res = {'evaluations': 0, 'distinct_nontrivial': 0, 'contract_evaluations': 0, 'failures': [],
           'samples': [], 'relations': {}}
    for (text, pa, pb, pga, pgb, rel) in chunk:
        for preca in PRECS:
            for precb in PRECS:
                for pia in (True, False):
                    for pib in (True, False):
                        for first in ('A', 'B'):
                            ta = ('TokA', pa, preca, pia, pga)
                            tb = ('TokB', pb, precb, pib, pgb)
                            types = [ta, tb] if first == 'A' else [tb, ta]
                            ncon, fails, nontriv, skip = run_case(text, types, want_pair=True)
                            if skip:
                                continue
                            res['evaluations'] += 1
                            res['contract_evaluations'] += ncon
                            res['distinct_nontrivial'] += 1 if nontriv else 0
                            res['relations'][rel] = res['relations'].get(rel, 0) + 1
                            for f in fails:
                                res['failures'].append(mk_failure(f, text, types))
        # the same placements one level down: TokC encloses both, so the conflict is resolved
        # among the children of a token (eval_new_child) instead of at top level
        tc = ('TokC', 'p(.*)q', 5, True, 1)
        for preca in WRAP_PRECS:
            for precb in WRAP_PRECS:
                for pia in (True, False):
                    for pib in (True, False):
                        for first in ('A', 'B'):
                            ta = ('TokA', pa, preca, pia, pga)
                            tb = ('TokB', pb, precb, pib, pgb)
                            types = [tc, ta, tb] if first == 'A' else [tb, ta, tc]
                            ncon, fails, nontriv, skip = run_case(text, types, want_pair='wrapped')
                            if skip:
                                continue
                            res['evaluations'] += 1
                            res['wrapped'] = res.get('wrapped', 0) + 1
                            res['contract_evaluations'] += ncon
                            res['distinct_nontrivial'] += 1 if nontriv else 0
                            for f in fails:
                                res['failures'].append(mk_failure(f, text, types))
        if len(res['samples']) < 2:
            res['samples'].append({'text': text, 'TokA': pa, 'TokB': pb, 'relation': rel})
    return res


def mk_failure(f, text, types):
    contract, observed, expected, cls = f
    inp = {'text': text, 'types': [list(t) for t in types]}
    d = {'key': '%s|%r' % (contract, (text, tuple(types))), 'contract': contract, 'input': inp,
         'observed': observed, 'expected': expected,
         'replay': 'from runtime import b16; print(b16.run_case(%r, %r, want_pair=%r))'
                   % (text, list(types), True if len(types) == 2 else
                      ('wrapped' if any(t[1] == 'p(.*)q' for t in types) else False))}
    if cls:
        d['class'] = cls
    return d


# ------------------------------------------------------------------------------------------------
# domain 2: random sets of up to 4 types over random texts

POOL = [r'\{(.*?)\}', r'<<(.*?)>>', r'\((\w*)\)', r'\{\{(.+?)\}\}', r'<(.+?)>', r'a(b*)a', r'(x+)',
        r'(x)y', r'y(x+)', r'\{(x*)', r'(\w)\}', r'>(>*)', r'<(<*)', r'(\}+)', r'a(b)', r'(a)b',
        r'\((.*)\)', r'(?<=\{)(\w+)', r'(\w+)(?=>)', r'<(\w*)\}', r'\{(\w*)>', r'([ab]+)',
        r'\((.*?)\)\)?', r'x(y?)', r'(\w \w)', r'b+(a*)b*', r'\{((?:<<)?)', r'(>>)\}']
TEXT_SIGMA = '{}()<>abxy '
SNIPPETS = ['{', '}', '<<', '>>', '(', ')', '))', 'a', 'b', 'ab', 'aba', 'abba', 'x', 'y', 'xy', 'yx', 'xx',
            ' ', '{{', '}}', '<', '>', '{x', 'a}', '{a>', '<b}', 'a b']


def random_case(rng):
    while True:
        text = ''.join(rng.choice(SNIPPETS) for _ in range(rng.randint(1, 8)))[:16]
        if text[0] not in '> ' and text[-1] != ' ':
            break
    matching = [p for p in POOL if re.search(p, text)] or POOL
    n = rng.choice([1, 2, 2, 3, 3, 4])
    types = []
    for i in range(n):
        pat = rng.choice(matching) if rng.random() < 0.85 else rng.choice(POOL)
        types.append((NAMES[i], pat, rng.choice(PRECS), rng.random() < 0.6, rng.choice([0, 1])))
    rng.shuffle(types)
    return text, types


def run_random_chunk(args):
    seed, lo, hi = args
    res = {'evaluations': 0, 'distinct_nontrivial': 0, 'contract_evaluations': 0, 'failures': [],
           'samples': [], 'relations': {}}
    seen = set()
    for i in range(lo, hi):
        rng = random.Random('c16-%d-%d' % (seed, i))
        text, types = random_case(rng)
        k = (text, tuple(types))
        if k in seen:
            continue
        seen.add(k)
        ncon, fails, nontriv, skip = run_case(text, types)
        if skip:
            continue
        res['evaluations'] += 1
        res['contract_evaluations'] += ncon
        res['distinct_nontrivial'] += 1 if nontriv else 0
        for f in fails:
            res['failures'].append(mk_failure(f, text, types))
        if len(res['samples']) < 1:
            res['samples'].append({'text': text, 'types': [list(t) for t in types]})
    return res


# ------------------------------------------------------------------------------------------------

def run(tier, seed, workers):
    cases = pair_cases()
    nrand = 2000 if tier == 'quick' else 100000
    parts = pool_map(run_pair_chunk, chunks(cases, max(1, workers * 8)), workers)
    step = max(1, nrand // max(1, workers * 4))
    rparts = pool_map(run_random_chunk, [(seed, lo, min(nrand, lo + step)) for lo in range(0, nrand, step)],
                      workers)
    out = {'evaluations': 0, 'distinct_nontrivial': 0, 'contract_evaluations': 0}
    failures, samples, rels = [], [], {}
    for r in parts + rparts:
        for k in out:
            out[k] += r[k]
        failures.extend(r['failures'])
        for k, v in r['relations'].items():
            rels[k] = rels.get(k, 0) + v
        if len(samples) < 8:
            samples.extend(r['samples'][:1])
    uniq = {}
    for f in failures:
        uniq.setdefault(f['key'], f)
    failures = sorted(uniq.values(), key=lambda f: (len(f['input']['text']), f['input']['text'], f['key']))
    by_class = {}
    for f in failures:
        c = f['contract'] + '/' + f.get('class', 'unclassified')
        by_class[c] = by_class.get(c, 0) + 1
    wrapped_eval = sum(r.get('wrapped', 0) for r in parts)
    pairs_eval = sum(r['evaluations'] for r in parts) - wrapped_eval
    out.update({
        'domain': ('PAIRS: all %d distinct effective placements of one TokA match and one TokB match '
                   '(every weak ordering of the 8 endpoints start<=group_start<=group_end<=end of the two '
                   'matches, i.e. every sub-case of all 13 Allen relations incl. inside the group / inside '
                   'either delimiter / straddling) x precedence {3..7}^2 x parse_inner {T,F}^2 x parse_group '
                   '{0,1}^2 x registration order {AB,BA} = %d parses (exhaustive; patterns are literal '
                   'regexes over a text of distinct letters so each type has exactly one candidate); '
                   'WRAPPED: the same placements enclosed in the parse group of a third token TokC '
                   "('p(.*)q', parse_inner) so that the conflict is resolved among children, x precedence "
                   '{4,5,6}^2 x parse_inner^2 x parse_group^2 x order = %d parses (exhaustive); '
                   'SETS: %d seeded random cases of 1..4 types (pattern from a pool of %d bracket-like '
                   'regexes, precedence 3..7, parse_inner, parse_group 0/1, random registration order) over '
                   'random texts (1..8 snippets of %r, cut at 16 characters); renderer: BaseRenderer subclass with explicit '
                   'render methods; texts contain no character that can start a built-in span token'
                   % (len(cases), pairs_eval, wrapped_eval, nrand, len(POOL), SNIPPETS)),
        'rule': ('a case is one (text, list of token types) parsed inside the renderer context and once '
                 'more after exit; non-trivial = at least two candidate matches overlap (conflict or '
                 'nesting has to be resolved)'),
        'exhaustive': True,
        'allen_relation_counts': rels,
        'samples': samples[:8],
        'failures_total': len(failures),
        'failures_by_class': by_class,
        'failures': keep_failures(failures),
    })
    return out


def keep_failures(failures, cap=400, per_class=60):
    """At most `cap` entries: the `per_class` smallest of every (contract, class), then the smallest overall."""
    picked, seen = [], set()
    groups = {}
    for f in failures:
        groups.setdefault((f['contract'], f.get('class')), []).append(f)
    for g in groups.values():
        for f in g[:per_class]:
            if f['key'] not in seen and len(picked) < cap:
                seen.add(f['key'])
                picked.append(f)
    for f in failures:
        if len(picked) >= cap:
            break
        if f['key'] not in seen:
            seen.add(f['key'])
            picked.append(f)
    return sorted(picked, key=lambda f: (len(f['input']['text']), f['input']['text'], f['key']))
