"""C15 (bounded tier): the same text gives the same result however it is supplied.

For every text t of the domain and every renderer R the following are compared:

  forms      mistletoe.markdown(s, R) for s given as  str / list of lines
             (`s.splitlines(keepends=True)`) / open text file (written as UTF-8 with newline='' into
             a private directory under /var/tmp, reopened with encoding='utf-8'): identical outcome
             (same output string, or the same exception type in all three).
  newline    if s does not end in '\\n' (and is not empty): every form of s + '\\n' gives the same
             outcome as every form of s.
  cli        `python -m mistletoe [-r pkg.Renderer] f1 ... fk` (real subprocess of /venv/bin/python,
             PYTHONPATH=$VERIF_REPO): exit status 0, empty stderr and stdout bytes equal to
             b''.join(markdown(text_i, R).encode() for i in 1..k)  (k = 1, 2, 3 and 40 files per
             invocation; half of the files of a batch lack the final newline; every other renderer's
             invocations run with PYTHONIOENCODING=latin-1: the output bytes are UTF-8 whatever stdout's
             text encoding is).

The oracle is the relation itself (two runs of the library must agree), as the property is a
relation between runs.  Side condition of the quantifier: the only line terminator is '\\n', i.e. the
text contains none of  \\r \\x0b \\x0c \\x1c \\x1d \\x1e \\x85 \\u2028 \\u2029 .
"""
import os
import random
import shutil
import subprocess
import tempfile

from runtime.common import use_repo, spec_examples, alpha, SIGMA12, pool_map, chunks, REPO

use_repo()

import mistletoe  # noqa: E402
from mistletoe.html_renderer import HtmlRenderer  # noqa: E402
from mistletoe.markdown_renderer import MarkdownRenderer  # noqa: E402
from mistletoe.latex_renderer import LaTeXRenderer  # noqa: E402
from mistletoe.ast_renderer import AstRenderer  # noqa: E402
from mistletoe.contrib.jira_renderer import JiraRenderer  # noqa: E402
from mistletoe.contrib.xwiki20_renderer import XWiki20Renderer  # noqa: E402

PY = '/venv/bin/python'
RENDERERS = [
    ('Html', HtmlRenderer, None),
    ('Markdown', MarkdownRenderer, 'mistletoe.markdown_renderer.MarkdownRenderer'),
    ('LaTeX', LaTeXRenderer, 'mistletoe.latex_renderer.LaTeXRenderer'),
    ('Ast', AstRenderer, 'mistletoe.ast_renderer.AstRenderer'),
    ('Jira', JiraRenderer, 'mistletoe.contrib.jira_renderer.JiraRenderer'),
    ('XWiki20', XWiki20Renderer, 'mistletoe.contrib.xwiki20_renderer.XWiki20Renderer'),
]
OTHER_TERMINATORS = set('\r\x0b\x0c\x1c\x1d\x1e\x85\u2028\u2029')


def in_domain(t):
    if any(c in OTHER_TERMINATORS for c in t):
        return False
    try:
        t.encode('utf-8')
    except UnicodeEncodeError:
        return False
    return True


FUZZ_SIGMA = list("*_`[]()<>!#-+=.:\\\"'&|~$1 \n\n\t") + [
    'a', '\xe9', '\xdf', '\u4e2d', '\U0001f600', '\xa0', '\u200b', '\u03a9', '\u0301', '\x1f', '&copy;',
    '<div>', '```', '> ', '- ', '[k]: /u\n', '    ', '|-|-|\n', '\x00', '\x7f']


def fuzz_texts(seed, n):
    out = []
    for i in range(n):
        rng = random.Random('c15-%d-%d' % (seed, i))
        L = rng.randint(1, 40)
        out.append(''.join(rng.choice(FUZZ_SIGMA) for _ in range(L)))
    return out


def outcome(fn):
    try:
        return ('ok', fn())
    except Exception as ex:  # noqa
        return ('exc', type(ex).__name__)


def variants(t):
    """The texts compared for one domain element: [s] or [s, s + '\\n']."""
    s = t[:-1] if t.endswith('\n') else t
    if s == '' or s.endswith('\n'):
        return [t]
    return [s, s + '\n']


def check_text(t, tmpdir, counter, use_file=True):
    """In-process contracts for one text. Returns (ncontracts, failures, nontrivial)."""
    fails = []
    ncon = 0
    vs = variants(t)
    paths = []
    if use_file:
        for v in vs:
            counter[0] += 1
            p = os.path.join(tmpdir, 'f%d.md' % counter[0])
            with open(p, 'w', encoding='utf-8', newline='') as f:
                f.write(v)
            paths.append(p)
    nontrivial = False
    for rname, R, _ in RENDERERS:
        ref = None
        for vi, v in enumerate(vs):
            o_str = outcome(lambda: mistletoe.markdown(v, R))
            o_list = outcome(lambda: mistletoe.markdown(v.splitlines(keepends=True), R))
            obs = [('str', o_str), ('list', o_list)]
            if use_file:
                def from_file():
                    with open(paths[vi], 'r', encoding='utf-8') as fin:
                        return mistletoe.markdown(fin, R)
                obs.append(('file', outcome(from_file)))
            if rname == 'Html' and o_str[0] == 'ok' and o_str[1].strip():
                nontrivial = True
            ncon += 1
            bad = [(k, o) for k, o in obs if o != o_str]
            if bad:
                fails.append(('forms', (v, rname), {k: o for k, o in obs}, 'all equal'))
            if ref is None:
                ref = o_str
            else:
                ncon += 1
                if o_str != ref:
                    fails.append(('newline', (vs[0], rname), {'without': ref, 'with': o_str}, 'equal'))
    for p in paths:
        os.unlink(p)
    return ncon, fails, nontrivial


def inproc_chunk(args):
    texts, use_file = args
    tmpdir = tempfile.mkdtemp(dir='/var/tmp', prefix='c15-')
    res = {'evaluations': 0, 'distinct_nontrivial': 0, 'contract_evaluations': 0, 'failures': []}
    counter = [0]
    try:
        for t in texts:
            ncon, fails, nontriv = check_text(t, tmpdir, counter, use_file)
            res['evaluations'] += 1
            res['contract_evaluations'] += ncon
            res['distinct_nontrivial'] += 1 if nontriv else 0
            for f in fails:
                res['failures'].append(mk_failure(*f))
    finally:
        shutil.rmtree(tmpdir, ignore_errors=True)
    return res


def mk_failure(contract, inp, observed, expected):
    text, rname = inp[0], inp[1]
    d = {'key': '%s|%r' % (contract, inp), 'contract': contract,
         'input': {'text': text, 'renderer': rname}, 'observed': observed, 'expected': expected,
         'replay': 'compare mistletoe.markdown(x, %s) for x = text, text.splitlines(keepends=True), '
                   "open(file, encoding='utf-8'), text + '\\n'" % rname}
    return d


def cli_batch(args):
    """One CLI invocation: (renderer index, [texts])."""
    ri, texts = args
    rname, R, rpath = RENDERERS[ri]
    res = {'evaluations': 0, 'distinct_nontrivial': 0, 'contract_evaluations': 0, 'failures': [],
           'invocations': 0}
    expected = []
    usable = []
    for t in texts:
        o = outcome(lambda: mistletoe.markdown(t, R))
        if o[0] == 'ok':   # precondition: the library call itself succeeds (C01's business)
            usable.append(t)
            expected.append(o[1].encode())
    if not usable:
        return res
    tmpdir = tempfile.mkdtemp(dir='/var/tmp', prefix='c15cli-')
    try:
        names = []
        for i, t in enumerate(usable):
            p = os.path.join(tmpdir, 'in%03d.md' % i)
            with open(p, 'w', encoding='utf-8', newline='') as f:
                f.write(t)
            names.append(p)
        cmd = [PY, '-m', 'mistletoe'] + (['-r', rpath] if rpath else []) + names
        env = dict(os.environ)
        env['PYTHONPATH'] = REPO
        env.pop('PYTHONIOENCODING', None)
        if ri % 2 == 1:
            # every other renderer runs with a stdout encoding that cannot represent most of Unicode: the tool writes
            # bytes (UTF-8) to stdout.buffer, so what the terminal encoding is must not matter
            env['PYTHONIOENCODING'] = 'latin-1'
        try:
            pr = subprocess.run(cmd, cwd=tmpdir, env=env, stdout=subprocess.PIPE, stderr=subprocess.PIPE,
                                timeout=300)
            got = (pr.returncode, pr.stdout, pr.stderr[-300:])
        except subprocess.TimeoutExpired:
            got = ('timeout', b'', b'')
        res['invocations'] = 1
        res['evaluations'] = len(usable)
        res['contract_evaluations'] = 1
        res['distinct_nontrivial'] = sum(1 for e in expected if e.strip())
        want = b''.join(expected)
        if got[0] != 0 or got[1] != want or got[2]:
            # find the smallest failing prefix/first differing file for the report
            k = first_diff_file(expected, got[1])
            inp = (tuple(usable) if len(usable) <= 3 else (usable[k] if k is not None else tuple(usable[:3])),
                   rname, len(usable))
            res['failures'].append({
                'key': 'cli|%r' % (inp,), 'contract': 'cli',
                'input': {'texts': list(usable) if len(usable) <= 3 else usable[k or 0], 'renderer': rname,
                          'files_in_invocation': len(usable), 'first_differing_file': k},
                'observed': {'returncode': got[0], 'stdout': got[1][:300].decode('utf-8', 'replace'),
                             'stderr': got[2].decode('utf-8', 'replace')},
                'expected': want[:300].decode('utf-8', 'replace'),
                'replay': ' '.join(cmd[:5]) + ' <files with these texts>'})
    finally:
        shutil.rmtree(tmpdir, ignore_errors=True)
    return res


def first_diff_file(expected, stdout):
    pos = 0
    for i, e in enumerate(expected):
        if stdout[pos:pos + len(e)] != e:
            return i
        pos += len(e)
    return None if pos == len(stdout) else len(expected) - 1


def run(tier, seed, workers):
    quick = tier == 'quick'
    spec = [e['markdown'] for e in spec_examples()]
    n_alpha = 4 if quick else 5
    alpha_texts = list(alpha(SIGMA12, n_alpha))
    n_fuzz = 3000 if quick else 60000
    fz = fuzz_texts(seed, n_fuzz)
    all_texts = []
    seen = set()
    excluded = 0
    # directed texts: characters that input layers like to treat specially, at the very start,
    # the very end and in the middle (byte order mark, NUL, zero-width and bidi marks, trailing blank lines)
    special = ['\ufeff', '\x00', '\u200b', '\u200e', '\u2060', '\ufffe', '\xa0', '\x1a', '\x7f']
    directed = []
    for ch in special:
        directed += [ch + '# Title\n', ch + 'para\n', '# T' + ch + '\n', 'a\n' + ch + '\n', 'x' + ch, ch]
    directed += ['a\n\n', 'a\n\n\n', '```\ncode\n\n', '```\ncode\n\n\n', '    code\n\n', '> q\n\n', '- i\n\n\n', '\n\na', '\n']
    for t in spec + directed + alpha_texts + fz:
        if t in seen:
            continue
        seen.add(t)
        if in_domain(t):
            all_texts.append(t)
        else:
            excluded += 1
    n_spec = sum(1 for t in set(spec) if in_domain(t))

    # in-process forms: file form for everything in quick; in thorough for spec, fuzz and ALPHA(.,4)
    if quick:
        jobs = [(c, True) for c in chunks(all_texts, workers * 6)]
    else:
        small = [t for t in all_texts if not (len(t) == 5 and set(t) <= set(SIGMA12))]
        big = [t for t in all_texts if len(t) == 5 and set(t) <= set(SIGMA12)]
        jobs = [(c, True) for c in chunks(small, workers * 6)] + [(c, False) for c in chunks(big, workers * 12)]
    parts = pool_map(inproc_chunk, jobs, workers)

    # CLI: batches of 40 files (+ a few of 1, 2, 3 files); every batch mixes with/without final newline
    rng = random.Random('c15-cli-%d' % seed)
    per_renderer = 7 if quick else 120
    cli_jobs = []
    spec_dom = [t for t in spec if in_domain(t)]
    rest = [t for t in all_texts if t not in set(spec_dom)]
    for ri in range(len(RENDERERS)):
        pool = list(spec_dom)
        rng.shuffle(pool)
        pool = [t for t in directed if in_domain(t)] + pool      # the directed texts go through the CLI for every renderer
        extra = rng.sample(rest, min(len(rest), per_renderer * 40))
        pool = pool + extra
        for b in range(per_renderer):
            batch = pool[b * 40:(b + 1) * 40]
            if not batch:
                break
            batch = [(t[:-1] if (i % 2 and t.endswith('\n') and not t[:-1].endswith('\n') and t != '\n') else t)
                     for i, t in enumerate(batch)]
            cli_jobs.append((ri, batch))
        for k in (1, 2, 3) if quick else (1, 1, 2, 2, 3, 3):
            cli_jobs.append((ri, rng.sample(spec_dom, k)))
    if quick:
        cli_jobs = cli_jobs[:60]
    cparts = pool_map(cli_batch, cli_jobs, workers)

    out = {'evaluations': 0, 'distinct_nontrivial': 0, 'contract_evaluations': 0}
    failures = []
    for r in parts + cparts:
        for k in out:
            out[k] += r[k]
        failures.extend(r['failures'])
    invocations = sum(r.get('invocations', 0) for r in cparts)
    uniq = {}
    for f in failures:
        uniq.setdefault(f['key'], f)

    def sk(f):
        t = f['input'].get('text', f['input'].get('texts'))
        t = t if isinstance(t, str) else '\x00'.join(t)
        return (len(t), t, f['key'])
    failures = sorted(uniq.values(), key=sk)
    by_class = {}
    for f in failures:
        c = f['contract'] + '/' + f.get('class', 'unclassified')
        by_class[c] = by_class.get(c, 0) + 1
    out.update({
        'domain': ('texts: %d CommonMark 0.30 spec inputs + ALPHA(SIGMA12, %d) (%d) + %d seeded fuzz strings '
                   '(length 1..40 over a %d-symbol alphabet with non-ASCII, NUL, NBSP, combining marks, astral '
                   'characters), %d distinct in total after excluding %d texts containing a str.splitlines '
                   'boundary other than \\n; x renderers %s; x forms {str, list of lines, open UTF-8 file%s} x '
                   '{as is, + final newline}; CLI: %d real `python -m mistletoe` invocations (batches of 40 '
                   'files, plus 1/2/3-file invocations), every renderer, %d (file, renderer) pairs'
                   % (n_spec, n_alpha, len(alpha_texts), n_fuzz, len(FUZZ_SIGMA), len(all_texts), excluded,
                      [r[0] for r in RENDERERS],
                      '' if quick else ' (file form skipped for the 12^5 strings of length 5)',
                      invocations, sum(r['evaluations'] for r in cparts))),
        'rule': ('one in-process case = one text, all renderers, all forms; non-trivial = the HTML '
                 'output is not blank; one CLI case = one file in an invocation'),
        'exhaustive': True,
        'cli_invocations': invocations,
        'samples': [all_texts[i] for i in range(0, len(all_texts), max(1, len(all_texts) // 6))][:6],
        'failures_total': len(failures),
        'failures_by_class': by_class,
        'failures': failures[:400],
    })
    return out

