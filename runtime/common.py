"""Bounded tier (DESIGN.md section 3): shared helpers.

Everything here runs under /venv/bin/python against the working tree of the repository
(VERIF_REPO, default /repo).  Results of this tier are *bounded* evidence: they are reported in
the `bounded` block of the evidence file and never counted as discharged proof obligations.

Interface of a bounded module runtime/bNN.py:

    def run(tier: str, seed: int, workers: int) -> dict
        returns {
          'domain': str,              # what was enumerated, with the bound
          'rule': str,                # how cases are generated and what makes one non-trivial
          'evaluations': int,         # cases executed (measured)
          'distinct_nontrivial': int, # distinct cases that are non-trivial by `rule` (measured)
          'contract_evaluations': int,# number of runtime-contract evaluations (>= evaluations)
          'exhaustive': bool,
          'samples': [ ... a few cases ... ],
          'failures': [ {'key': str,     # STABLE identity of the failure class + input (see below)
                         'contract': str, # which runtime contract / clause failed
                         'input': ...,    # JSON-able input that reproduces it through the API
                         'observed': ..., 'expected': ...,
                         'replay': str}   # python snippet / instructions
                       ... ],
        }

`key` convention:  '<contract-name>|<repr of minimal input>' so that known_findings.json can list
individual inputs or, where a finding is an input *class*, a prefix '<contract-name>|class:<name>'.
"""
import itertools
import json
import os
import sys
import time

VERIF = os.path.dirname(os.path.dirname(os.path.abspath(__file__)))
REPO = os.environ.get('VERIF_REPO', '/repo')


def use_repo():
    """Make `import mistletoe` resolve to the working tree under test."""
    if REPO not in sys.path:
        sys.path.insert(0, REPO)
    for k in list(sys.modules):
        if k == 'mistletoe' or k.startswith('mistletoe.'):
            mod = sys.modules[k]
            f = getattr(mod, '__file__', '') or ''
            if not f.startswith(REPO):
                del sys.modules[k]
    import mistletoe  # noqa
    assert mistletoe.__file__.startswith(REPO), (mistletoe.__file__, REPO)
    return mistletoe


def spec_examples():
    with open(os.path.join(VERIF, 'corpus', 'commonmark-0.30.json'), encoding='utf-8') as f:
        return json.load(f)


def alpha(sigma, n, min_len=0):
    """All strings over alphabet `sigma` of length min_len..n (generator)."""
    for k in range(min_len, n + 1):
        for t in itertools.product(sigma, repeat=k):
            yield ''.join(t)


SIGMA28 = list("*_`[]()<>!#-+=.:\\\"'&|~$>1") + ['\t', 'a', 'é', ' ', '\n']
SIGMA12 = list("*_`[]>-#a \n") + ['\t']


class Timer:
    def __init__(self):
        self.t0 = time.time()

    def s(self):
        return time.time() - self.t0


def chunks(seq, n):
    seq = list(seq)
    k = max(1, (len(seq) + n - 1) // n)
    return [seq[i:i + k] for i in range(0, len(seq), k)]


def pool_map(fn, items, workers):
    """Order-preserving parallel map with fork-based workers (module must be importable)."""
    import multiprocessing as mp
    if workers <= 1 or len(items) < 2:
        return [fn(x) for x in items]
    ctx = mp.get_context('fork')
    with ctx.Pool(workers) as p:
        return p.map(fn, items, chunksize=max(1, len(items) // (workers * 8)))


def merge(results):
    """Merge partial result dicts from workers."""
    out = {'evaluations': 0, 'distinct_nontrivial': 0, 'contract_evaluations': 0,
           'failures': [], 'samples': []}
    for r in results:
        out['evaluations'] += r.get('evaluations', 0)
        out['distinct_nontrivial'] += r.get('distinct_nontrivial', 0)
        out['contract_evaluations'] += r.get('contract_evaluations', 0)
        out['failures'].extend(r.get('failures', []))
        if len(out['samples']) < 8:
            out['samples'].extend(r.get('samples', [])[:2])
    return out
