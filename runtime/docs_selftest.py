"""Hand-checked samples for the DOCS generator (no mistletoe involved).

Each sample is a hand-built tree with the canonical Markdown text, the HTML and the start lines
that were checked by hand against CommonMark 0.30 (layout of the specification's examples) and
the GFM table extension.  `python -m runtime.docs_selftest` re-derives all three from the tree
and compares.  During development the generator was additionally cross-checked on ~14 000
(tree, spelling) pairs against an independent CommonMark implementation (markdown-it-py 4.0.0
found in a local conda package cache; not a dependency of this tier): the only disagreements
were three quirks of that implementation (alt text of images drops code spans/escapes, a table
header on a list-marker line without leading pipe is parsed before the list, '>' accepted as a
quote continuation when indented 4 spaces).
"""
from runtime import docs
from runtime.docs import Node, T
from runtime.b13 import P, UL, OL, Q, D, TBL


def em(*c):
    return Node('em', children=list(c), glued=False)


def st(*c):
    return Node('strong', children=list(c), glued=False)


def trees():
    return [
        [P('foo', 'bar')],
        [Node('atx', level=3, inl=[T('head '), em(T('x'))])],
        [Node('setext', level=1, inl=[T('Title')]), Node('setext', level=2, inl=[T('Sub')])],
        [Node('hr'), Node('fence', info='py', lines=['x = 1', '', '  y']),
         Node('icode', lines=['a', '', '  b'])],
        [Q(P('a'), Node('hr')), P('b')],
        [UL([P('a')], [P('b'), UL([P('c')])])],
        [UL([P('a')], [P('b')], tight=False)],
        [OL(3, [P('a')], [Node('fence', info='', lines=['z'])])],
        [OL(1, [P('a'), P('b')], tight=False)],
        [UL([Node('icode', lines=['code'])], [])],
        [TBL()],
        [Node('html', text='<div>\nhello\n</div>'), P('x')],
        [D('foo'), Node('para', inl=[
            Node('reflink', children=[T('text')], label='FOO', form='full'), T(' '),
            Node('reflink', children=[T('Foo')], label='Foo', form='collapsed'), T(' '),
            Node('reflink', children=[T('foo')], label='foo', form='shortcut')])],
        [Node('para', inl=[
            Node('link', children=[T('a '), st(T('b'))], dest='/p?x=1&y=2', title='t'), T(' '),
            Node('image', children=[T('alt '), em(T('x'))], dest='/i.png', title=''), T(' '),
            Node('autolink', url='http://a.b/c', email=False), T(' '),
            Node('autolink', url='me@x.org', email=True)])],
        [Node('para', inl=[
            Node('code', s='a`b'), T(' '), Node('esc', ch='*'), T(' '),
            Node('ent', src='&copy;', ch='\u00a9'), T(' '), Node('ent', src='&#35;', ch='#'),
            T(' x '), Node('rawhtml', s='<span>'), Node('hard'),
            Node('del', children=[T('gone')], glued=False), T(' a'),
            Node('strong', children=[T('b')], glued=True), T('c')])],
        [Q(UL([Q(P('deep'))]))],
        [UL([Node('hr')], [Node('atx', level=1, inl=[T('h')])], [Q(P('q'))])],
        [Node('para', inl=[em(st(T('both')))]), Node('para', inl=[st(em(T('x')), T(' y'))])],
    ]


EXPECTED = [
    ('foo\nbar\n',
     '<p>foo\nbar</p>\n',
     [(0, 1)]),
    ('### head *x*\n',
     '<h3>head <em>x</em></h3>\n',
     [(0, 1)]),
    ('Title\n===\n\nSub\n---\n',
     '<h1>Title</h1>\n<h2>Sub</h2>\n',
     [(0, 1), (1, 4)]),
    ('***\n\n```py\nx = 1\n\n  y\n```\n\n    a\n\n      b\n',
     '<hr />\n<pre><code class="language-py">x = 1\n\n  y\n</code></pre>\n<pre><code>a\n\n  b\n</code></pre>\n',
     [(0, 1), (1, 3), (2, 9)]),
    ('> a\n>\n> ***\n\nb\n',
     '<blockquote>\n<p>a</p>\n<hr />\n</blockquote>\n<p>b</p>\n',
     [(0, 1), (1, 1), (2, 3), (3, 5)]),
    ('- a\n- b\n  - c\n',
     '<ul>\n<li>a</li>\n<li>b\n<ul>\n<li>c</li>\n</ul>\n</li>\n</ul>\n',
     [(0, 1), (1, 1), (2, 1), (3, 2), (4, 2), (5, 3), (6, 3), (7, 3)]),
    ('- a\n\n- b\n',
     '<ul>\n<li>\n<p>a</p>\n</li>\n<li>\n<p>b</p>\n</li>\n</ul>\n',
     [(0, 1), (1, 1), (2, 1), (3, 3), (4, 3)]),
    ('3. a\n4. ```\n   z\n   ```\n',
     '<ol start="3">\n<li>a</li>\n<li>\n<pre><code>z\n</code></pre>\n</li>\n</ol>\n',
     [(0, 1), (1, 1), (2, 1), (3, 2), (4, 2)]),
    ('1. a\n\n   b\n',
     '<ol>\n<li>\n<p>a</p>\n<p>b</p>\n</li>\n</ol>\n',
     [(0, 1), (1, 1), (2, 1), (3, 3)]),
    ('-     code\n-\n',
     '<ul>\n<li>\n<pre><code>code\n</code></pre>\n</li>\n<li></li>\n</ul>\n',
     [(0, 1), (1, 1), (2, 1), (3, 2)]),
    ('| a | b |\n| --- | :---: |\n| c | d |\n| e | f |\n',
     '<table>\n<thead>\n<tr>\n<th align="left">a</th>\n<th align="center">b</th>\n</tr>\n</thead>\n<tbody>\n<tr>\n<td align="left">c</td>\n<td align="center">d</td>\n</tr>\n<tr>\n<td align="left">e</td>\n<td align="center">f</td>\n</tr>\n</tbody>\n</table>\n',
     [(0, 1), (1, 1), (2, 1), (3, 1), (4, 3), (5, 3), (6, 3), (7, 4), (8, 4), (9, 4)]),
    ('<div>\nhello\n</div>\n\nx\n',
     '<div>\nhello\n</div>\n<p>x</p>\n',
     [(0, 1), (1, 5)]),
    ('[foo]: /url\n\n[text][FOO] [Foo][] [foo]\n',
     '<p><a href="/url">text</a> <a href="/url">Foo</a> <a href="/url">foo</a></p>\n',
     [(0, 1), (1, 3)]),
    ('[a **b**](/p?x=1&y=2 "t") ![alt *x*](/i.png) <http://a.b/c> <me@x.org>\n',
     '<p><a href="/p?x=1&amp;y=2" title="t">a <strong>b</strong></a> <img src="/i.png" alt="alt x" /> <a href="http://a.b/c">http://a.b/c</a> <a href="mailto:me@x.org">me@x.org</a></p>\n',
     [(0, 1)]),
    ('``a`b`` \\* &copy; &#35; x <span>  \n~~gone~~ a**b**c\n',
     '<p><code>a`b</code> * © # x <span><br />\n<del>gone</del> a<strong>b</strong>c</p>\n',
     [(0, 1)]),
    ('> - > deep\n',
     '<blockquote>\n<ul>\n<li>\n<blockquote>\n<p>deep</p>\n</blockquote>\n</li>\n</ul>\n</blockquote>\n',
     [(0, 1), (1, 1), (2, 1), (3, 1), (4, 1)]),
    ('- ***\n- # h\n- > q\n',
     '<ul>\n<li>\n<hr />\n</li>\n<li>\n<h1>h</h1>\n</li>\n<li>\n<blockquote>\n<p>q</p>\n</blockquote>\n</li>\n</ul>\n',
     [(0, 1), (1, 1), (2, 1), (3, 2), (4, 2), (5, 3), (6, 3), (7, 3)]),
    ('*__both__*\n\n**_x_ y**\n',
     '<p><em><strong>both</strong></em></p>\n<p><strong><em>x</em> y</strong></p>\n',
     [(0, 1), (1, 3)]),
]


def selftest():
    ts = trees()
    assert len(ts) == len(EXPECTED)
    for t, (text, html, lines) in zip(ts, EXPECTED):
        docs.number(t)
        assert docs.valid_tree(t), t
        w = docs.write(t, docs.canonical_spelling(t))
        assert w.text == text, (w.text, text)
        assert docs.serialise_html(t) == html, (docs.serialise_html(t), html)
        assert sorted(w.lines.items()) == lines, (sorted(w.lines.items()), lines)
        # every seeded spelling must be writable and keep the recorded lines inside the text
        for sp in docs.spellings(t, 0, 25):
            w2 = docs.write(t, sp)
            n = w2.text.count('\n') + 1
            assert all(1 <= v <= n for v in w2.lines.values())
    # normaliser: the cases the CommonMark driver documents
    nh = docs.normalize_html
    assert nh('<p>a  \t b</p>') == '<p>a b</p>'
    assert nh('<p>a  \t\nb.</p>') == '<p>a b.</p>'
    assert nh('<p>a</p>\n<p>b</p>') == '<p>a</p><p>b</p>'
    assert nh(' <p>a  b</p>') == '<p>a b</p>'
    assert nh('<br />') == '<br>'
    assert nh('<a title="bar" HREF="foo">x</a>') == '<a href="foo" title="bar">x</a>'
    assert nh('&forall;&amp;&gt;&lt;&quot;') == '\u2200&amp;&gt;&lt;&quot;'
    assert nh('<pre><code>a  b\n</code></pre>') == '<pre><code>a  b\n</code></pre>'
    return len(ts)


if __name__ == '__main__':
    print('docs selftest ok: %d hand-checked samples' % selftest())
