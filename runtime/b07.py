"""C07 (bounded): link reference definitions -- position-independent, first wins, case-folded.

Part 1 'placement' (contract c07-resolve).  Documents are written from a block skeleton that contains
exactly one reference (full [t][L], collapsed [L][], shortcut [L], and the three image forms) hosted in
a paragraph, an ATX heading or a setext heading, at top level or inside block quotes / list items /
both.  One or two definitions are inserted at EVERY block boundary of EVERY nesting level (written with
the container's prefix, separated from their neighbours by blank lines), with labels from families of
matching spellings (case variants, inner whitespace incl. a line break, Unicode case folding) or a
non-matching label, the three title styles and plain / <...> destinations.  The expected HTML is
computed from the skeleton by this module: the reference resolves to the first definition in document
order whose label matches after spec normalisation (case fold, strip, collapse whitespace); without
one it stays literal text; definitions contribute nothing.  Compared after deleting <p>, </p> and
line endings on both sides (list tightness is not the subject).
(Setext hosts are not placed inside block quotes: setext headings are not recognised there, the C04
finding.)

Part 2 'scanner' (contract c07-scanner).  Every string s over { [ ] : < > " ' ( ) \\ a space \\n }
up to length N that contains '[' somewhere before a "]:"  (all others cannot contain a definition),
plus all strings up to length 5:  Document(s).footnotes  ==  runtime.spec_linkdef.document_definitions(s),
an independent recogniser of spec 4.7 / 6.3 with a miniature block model (paragraph, quote, indented
code, blank line -- the only blocks this alphabet can spell).
"""
import itertools

from runtime.common import use_repo, pool_map, merge
from runtime.mtutil import reset_state, keep_smallest
from runtime.spec_linkdef import document_definitions, normalize_label

use_repo()
from mistletoe import Document  # noqa: E402
from mistletoe.html_renderer import HtmlRenderer  # noqa: E402

MAX_KEEP = 400

# ------------------------------------------------------------------------------------ part 1: placement
FAMILIES = [['Foo', 'FOO', 'foo'], ['a  b', 'a b', 'a\nb', 'A B'], ['ẞ', 'SS', 'ss'], ['ΑΓΩ', 'αγω']]
OTHER = 'bar'
STYLES = [('/u%d', ' "t%d"'), ('</u%d>', " 't%d'"), ('/u%d', ' (t%d)'), ('</u%d>', ''), ('/u%d', '\n  "t%d"'), ('/u%d', '')]
FORMS = ['[t][%s]', '[%s][]', '[%s]', '![t][%s]', '![%s][]', '![%s]']
# skeleton: nested lists; 'U' = the block hosting the use, 'x' = a plain paragraph, ('q', [...]) quote,
# ('l', [...]) one-item bullet list, ('o', [...]) one-item ordered list
SKELETONS = [['U'], ['x', 'U'], [('q', ['U'])], [('l', ['U'])], [('q', [('l', ['U'])])], [('l', [('q', ['U']), 'x'])],
             [('o', ['x', 'U'])], ['x', ('q', ['x', ('q', ['U'])])], [('l', [('l', ['U'])]), 'x']]
HOSTS = ['p', 'h', 's']


def slots(sk, path=()):
    """All (container path, position) block boundaries of a skeleton."""
    out = [(path, k) for k in range(len(sk) + 1)]
    for k, b in enumerate(sk):
        if isinstance(b, tuple):
            out += slots(b[1], path + (k,))
    return out


def in_quote(sk, under=False):
    for b in sk:
        if b == 'U' and under:
            return True
        if isinstance(b, tuple) and in_quote(b[1], under or b[0] == 'q'):
            return True
    return False


def write(sk, ins, use, host, path=()):
    """-> (markdown lines, expected html, [(line index, def id)]) for the blocks of one container.
    ins = {(path, pos): [(def id, def text), ...]}."""
    lines, html, where = [], '', []

    def add(block_lines, marks=()):
        if lines:
            lines.append('')
        for off, d in marks:
            where.append((len(lines) + off, d))
        lines.extend(block_lines)
    for k in range(len(sk) + 1):
        for d, text in ins.get((path, k), ()):
            add(text.split('\n'), [(0, d)])
        if k == len(sk):
            break
        b = sk[k]
        if b == 'x':
            add(['plain'])
            html += '<p>plain</p>'
        elif b == 'U':
            src, out = use
            if host == 'p':
                add(src.split('\n'))
                html += '<p>%s</p>' % out
            elif host == 'h':
                add(['## ' + src])
                html += '<h2>%s</h2>' % out
            else:
                add([src, '==='])
                html += '<h1>%s</h1>' % out
        else:
            kind, inner = b
            il, ih, iw = write(inner, ins, use, host, path + (k,))
            if kind == 'q':
                body = ['> ' + l if l else '>' for l in il]
                html += '<blockquote>%s</blockquote>' % ih
            else:
                first, rest = ('- ', '  ') if kind == 'l' else ('7. ', '   ')
                body = [(first if n == 0 else rest) + l if (l or n == 0) else '' for n, l in enumerate(il)]
                html += ('<ul><li>%s</li></ul>' if kind == 'l' else '<ol start="7"><li>%s</li></ol>') % ih
            base = len(lines) + (1 if lines else 0)
            where += [(base + n, d) for n, d in iw]
            add(body)
    return lines, html, where


def squash(html):
    return html.replace('<p>', '').replace('</p>', '').replace('\n', '')


def label_choices():
    """(use label, label of def 1, label of def 2 or None)"""
    out = []
    for fam in FAMILIES:
        pool = fam + [OTHER]
        for u in fam:
            for l1 in pool:
                for l2 in pool + [None]:
                    out.append((u, l1, l2))
    return out


def placement_tasks():
    return [('placement', si, host, fi) for si, sk in enumerate(SKELETONS) for host in HOSTS for fi in range(len(FORMS))
            if not (host == 's' and in_quote(sk))]


def placement_cases(task, tier, seed):
    """Yield (skeleton index, host, form index, (u, l1, l2), slot1, slot2, style offset)."""
    _, si, host, fi = task
    sl = slots(SKELETONS[si])
    n = 0
    for u, l1, l2 in label_choices():
        if '\n' in u and (host != 'p' or fi >= 3):
            continue        # multi-line label only as link text in a paragraph (alt text / heading: not the subject)
        for s1 in sl:
            for s2 in (sl if l2 is not None else [None]):
                n += 1
                # quick: labels x slots exhaustively for the three link forms hosted in a paragraph, every
                # 5th combination otherwise; one title/destination style per case, rotating
                if tier != 'thorough' and not (host == 'p' and fi < 3) and (n + seed) % 5:
                    continue
                for st in (range(len(STYLES)) if tier == 'thorough' else [(n + seed) % len(STYLES)]):
                    yield si, host, fi, (u, l1, l2), s1, s2, st


def build(case):
    si, host, fi, (u, l1, l2), s1, s2, st = case
    defs = []
    ins = {}
    for d, (lab, slot) in enumerate(((l1, s1), (l2, s2))):
        if lab is None:
            continue
        dest, title = STYLES[(st + d) % len(STYLES)]
        dest, title = dest % (d + 1), title % (d + 1) if '%d' in title else title
        defs.append((d, lab, dest.strip('<>'), title.strip(' \n')[1:-1] if title else ''))
        ins.setdefault(slot, []).append((d, '[%s]:%s%s%s' % (lab, ' ' if d == 0 else '\n ', dest, title)))
    src = FORMS[fi] % u
    # expected inline HTML, filled in once the document order of the definitions is known
    lines, html, where = write(SKELETONS[si], ins, (src, '\0'), host)
    order = [d for _, d in sorted(where)]
    key = normalize_label(u)
    hit = next((d for d in order if normalize_label(defs_by_id(defs, d)[1]) == key), None)
    text = 't' if fi in (0, 3) else u
    if hit is None:
        out = src
    else:
        _, _, dest, title = defs_by_id(defs, hit)
        tattr = ' title="%s"' % title if title else ''
        out = ('<a href="%s"%s>%s</a>' % (dest, tattr, text) if fi < 3
               else '<img src="%s" alt="%s"%s />' % (dest, text, tattr))
    return '\n'.join(lines) + '\n', html.replace('\0', out), hit is not None


def defs_by_id(defs, d):
    return next(x for x in defs if x[0] == d)


def work_placement(task, tier, seed):
    stats = {'evaluations': 0, 'distinct_nontrivial': 0, 'contract_evaluations': 0, 'failures': [], 'samples': []}
    with HtmlRenderer() as r:
        for case in placement_cases(task, tier, seed):
            md, want, resolved = build(case)
            stats['evaluations'] += 1
            stats['contract_evaluations'] += 1
            stats['distinct_nontrivial'] += 1 if resolved else 0
            if stats['evaluations'] == 1000:
                stats['samples'].append(md)
            try:
                got = r.render(Document(md))
            except RecursionError:
                raise
            except Exception as e:  # noqa
                reset_state()
                stats['failures'].append(fail('noraise', md, '%s: %s' % (type(e).__name__, e), 'no exception', 'c01:' + type(e).__name__))
                continue
            if squash(got) != squash(want):
                if case[1] == 's' and resolved and '<a ' not in got and '<img ' not in got:
                    klass = 'setext-heading-inline-parsed-before-later-definitions'
                elif not resolved:
                    klass = 'unmatched-reference-not-literal'
                else:
                    klass = 'wrong-or-missing-resolution'
                stats['failures'].append(fail('c07-resolve', md, got, want, klass))
    return stats


# -------------------------------------------------------------------------------------- part 2: scanner
SIGMA13 = list('[]:<>"\'()\\a \n')


def scanner_tasks(tier):
    """Work units ('short', L, prefix) = all strings of length L with that prefix, and
    ('def', len(X), len(Y), prefix of X) = strings X + ']:' + Y with '[' in X and no ']:' inside X + ']'
    (the decomposition at the first ']:' is unique, so no string is produced twice)."""
    n = 8 if tier == 'thorough' else 7
    out = [('short', L, p) for L in range(0, 6) for p in ([''] if L < 4 else SIGMA13)]
    for total in range(6, n + 1):
        for lx in range(1, total - 1):
            ly = total - 2 - lx
            if lx + ly <= 3:
                out.append(('def', lx, ly, ''))
            else:
                for p in itertools.product(SIGMA13, repeat=2 if lx + ly >= 6 and lx >= 2 else 1):
                    if len(p) <= lx:
                        out.append(('def', lx, ly, ''.join(p)))
    return [t for i in range(16) for t in out[i::16]]


def scanner_strings(task):
    if task[0] == 'short':
        _, L, p = task
        for t in itertools.product(SIGMA13, repeat=L - len(p)):
            yield p + ''.join(t)
        return
    _, lx, ly, p = task
    ys = [''.join(t) for t in itertools.product(SIGMA13, repeat=ly)]
    for t in itertools.product(SIGMA13, repeat=lx - len(p)):
        x = p + ''.join(t)
        if '[' not in x or ']:' in x:
            continue
        for y in ys:
            yield x + ']:' + y


def work_scanner(task):
    stats = {'evaluations': 0, 'distinct_nontrivial': 0, 'contract_evaluations': 0, 'failures': [], 'samples': []}
    for s in scanner_strings(task):
        stats['evaluations'] += 1
        stats['contract_evaluations'] += 1
        want = document_definitions(s)
        try:
            got = dict(Document(s).footnotes)
        except RecursionError:
            raise
        except Exception as e:  # noqa
            reset_state()
            stats['failures'].append(fail('noraise', s, '%s: %s' % (type(e).__name__, e), 'no exception', 'c01:' + type(e).__name__))
            continue
        if want or got:
            stats['distinct_nontrivial'] += 1
        got = {k: tuple(v) for k, v in got.items()}
        if got != want:
            stats['failures'].append(fail('c07-scanner', s, got, want, classify_scanner(s, got, want)))
    return stats


def _unbalanced(dest):
    depth, j = 0, 0
    while j < len(dest):
        if dest[j] == '\\' and j + 1 < len(dest) and not dest[j + 1].isalnum() and not dest[j + 1].isspace():
            j += 2
            continue
        depth += {'(': 1, ')': -1}.get(dest[j], 0)
        if depth < 0:
            return True
        j += 1
    return depth != 0


def classify_scanner(s, got, want):
    """Root-cause attribution (heuristic; the verdict does not depend on it)."""
    import re
    if got and not want or len(got) > len(want):
        if any(_unbalanced(raw) for raw in re.findall(r'\]:[ \n]*([^ \n<][^ \n]*)', s)):
            return 'destination-with-unbalanced-parentheses-accepted'
        if re.search(r'\[[^\]]*\n {0,3}>', s) or re.search(r'\]:[ ]*\n {0,3}>', s):
            return 'definition-read-across-line-that-starts-a-block-quote'
        if re.search(r'(^|\n) {0,3}[.)]( |\n|$)', s):
            return 'list-marker-without-digits'          # ")" alone taken for an (empty) list item
        if any('(' in v[1] for v in got.values()):
            return 'paren-title-with-unescaped-paren-accepted'
        return 'non-definition-accepted'
    if want and not got or len(want) > len(got):
        return 'definition-missed'
    if set(got) != set(want):
        return 'different-labels'
    if any(want[k][0] != got[k][0] and want[k][0].strip() == got[k][0] for k in want):
        return 'angle-destination-whitespace-stripped'
    return 'different-destination-or-title'


def fail(contract, x, observed, expected, klass):
    return {'key': '%s|%r' % (contract, x), 'contract': contract, 'class': klass, 'input': x,
            'observed': observed, 'expected': expected,
            'replay': 'from mistletoe import Document, HtmlRenderer\nwith HtmlRenderer() as r:\n    d = Document(%r)\n'
                      '    print(d.footnotes); print(r.render(d))' % x}


def adjacent_cases():
    """Runs of 2-3 definitions on consecutive lines (one Footnote.read group) with matching and
    non-matching labels, before or after the use, at top level / in a quote / in a list item.
    Expected: the FIRST definition in document order whose normalised label matches wins."""
    prefixes = [('', ''), ('> ', '<blockquote>'), ('- ', '<ul><li>')]
    for fam in FAMILIES:
        labs = [l for l in fam if '\n' not in l]
        for u in labs:
            for l1 in labs + [OTHER]:
                for l2 in labs + [OTHER]:
                    for l3 in (None, labs[0]):
                        group = [l1, l2] + ([l3] if l3 else [])
                        for pre, _ in prefixes:
                            for before in (True, False):
                                yield u, group, pre, before


def work_adjacent(task, tier, seed):
    stats = {'evaluations': 0, 'distinct_nontrivial': 0, 'contract_evaluations': 0, 'failures': [], 'samples': []}
    with HtmlRenderer() as r:
        for u, group, pre, before in adjacent_cases():
            cont = pre if pre != '- ' else '  '
            deflines = ['%s[%s]: /u%d "t%d"' % ((pre if i == 0 and (before or True) else cont), lab, i + 1, i + 1)
                        for i, lab in enumerate(group)]
            use = '[%s]' % u
            if before:
                lines = deflines + [cont.rstrip() if cont.strip() else '', cont + use]
            else:
                lines = [pre + use, cont.rstrip() if cont.strip() else ''] + [cont + l[len(pre):] if i == 0 else l for i, l in enumerate(deflines)]
                lines = [pre + use, cont.rstrip() if cont.strip() else ''] + [cont + '[%s]: /u%d "t%d"' % (lab, i + 1, i + 1) for i, lab in enumerate(group)]
            md = '\n'.join(lines) + '\n'
            key = normalize_label(u)
            hit = next((i for i, lab in enumerate(group) if normalize_label(lab) == key), None)
            stats['evaluations'] += 1
            stats['contract_evaluations'] += 1
            stats['distinct_nontrivial'] += 1 if hit is not None else 0
            if stats['evaluations'] == 7:
                stats['samples'].append(md)
            try:
                got = r.render(Document(md))
            except RecursionError:
                raise
            except Exception as e:  # noqa
                reset_state()
                stats['failures'].append(fail('noraise', md, '%s: %s' % (type(e).__name__, e), 'no exception', 'c01:' + type(e).__name__))
                continue
            if hit is None:
                ok = '<a ' not in got and ('[%s]' % u) in got
                want = 'literal [%s], no link' % u
            else:
                want = '<a href="/u%d" title="t%d">%s</a>' % (hit + 1, hit + 1, u)
                ok = want in got and got.count('<a ') == 1
            if not ok:
                stats['failures'].append(fail('c07-adjacent-group', md, got, want,
                                              'adjacent-definitions-first-does-not-win' if hit is not None else 'unmatched-reference-not-literal'))
    return stats


def work(arg):
    task, tier, seed = arg
    st = work_placement(task, tier, seed) if task[0] == 'placement' else (
        work_adjacent(task, tier, seed) if task[0] == 'adjacent' else work_scanner(task))
    by_class = {}
    for f in st['failures']:
        by_class[f['class']] = by_class.get(f['class'], 0) + 1
    st.update({'failures_total': len(st['failures']), 'by_class': by_class, 'failures': keep_smallest(st['failures'], MAX_KEEP)})
    return st


def run(tier, seed, workers):
    ts = placement_tasks() + [('adjacent',)] + scanner_tasks(tier)
    ts = [t for i in range(8) for t in ts[i::8]]
    res = pool_map(work, [(t, tier, seed) for t in ts], workers)
    out = merge(res)
    placed = sum(r['evaluations'] for r, t in zip(res, ts) if t[0] == 'placement')
    by_class = {}
    for r in res:
        for k, v in r['by_class'].items():
            by_class[k] = by_class.get(k, 0) + v
    out.update({
        'domain': 'adjacent groups: runs of 2-3 definitions on consecutive lines x matching/non-matching labels x {top level, quote, list item} x {before, after the use}; placement: %d documents = %d skeletons x hosts {paragraph, ATX, setext} x 6 reference forms x label triples '
                  '(use, def1, def2|none) from 4 families of matching spellings + a non-matching label x every pair of block '
                  'boundaries at every nesting level x %s of 6 title/destination styles%s; scanner: %d strings over '
                  '{[ ] : < > " \' ( ) \\ a space newline}: all up to length 5 and all up to length %d with a "[" before a "]:"'
                  % (placed, len(SKELETONS), 'each' if tier == 'thorough' else 'one (rotating)',
                     '' if tier == 'thorough' else ' (exhaustive for link forms hosted in a paragraph, every 5th otherwise, offset by seed)',
                     out['evaluations'] - placed, 8 if tier == 'thorough' else 7),
        'rule': 'placement case non-trivial = the reference has a matching definition; scanner case non-trivial = either '
                'side finds at least one definition',
        'exhaustive': tier == 'thorough', 'failures_total': sum(r['failures_total'] for r in res),
        'failures_by_class': dict(sorted(by_class.items(), key=lambda kv: -kv[1])),
        'failures': keep_smallest(out['failures'], MAX_KEEP)})
    return out
