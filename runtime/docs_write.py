"""Writer side of the DOCS generator: `Spelling`, `spellings`, `canonical_spelling`, `write`.

No mistletoe imports.  `write(tree, spelling)` turns a tree of `docs_tree.Node`s into Markdown
text, fixing every freedom CommonMark 0.30 leaves for that tree with the (seeded) choices of the
`Spelling`, and records the 1-based line on which every block node starts.
"""
import random

from runtime.docs_tree import (Node, nodefs, tail_leaf, may_omit_blank, HTML_CLOSED)


class Spelling:
    """A source of spelling decisions.  canonical=True always takes the first (simplest) option."""

    def __init__(self, seed=None, canonical=False, bias=None):
        self.seed = seed
        self.canonical = canonical
        # optional overrides of the writer's probabilities, e.g. {'blank_start': 1.0, 'lazy': 0.9,
        # 'noblank': 0.9, 'indent': 0.7, 'lead': 2, 'defs': 'top'}
        self.bias = dict(bias or {})

    def __repr__(self):
        if self.canonical:
            return 'Spelling(canonical)'
        if self.bias:
            return 'Spelling(%r, bias=%r)' % (self.seed, self.bias)
        return 'Spelling(%r)' % (self.seed,)


def canonical_spelling(tree=None):
    return Spelling(canonical=True)


def spellings(tree, seed, count):
    """`count` seeded spellings for `tree` (they depend on `seed` and the index only)."""
    for i in range(count):
        yield Spelling(seed='%s|%d' % (seed, i))


class Written:
    def __init__(self, text, lines, tree, spelling):
        self.text = text
        self.lines = lines          # node id -> 1-based line on which the block starts
        self.tree = tree
        self.spelling = spelling
        self.blank_start_items = set()   # ids of items whose content starts on the next line


class L:
    """One output line relative to the enclosing container."""
    __slots__ = ('text', 'blank', 'lazy', 'alldrop', 'starts')

    def __init__(self, text, blank=False, lazy=False, starts=None):
        self.text = text
        self.blank = blank
        self.lazy = lazy            # paragraph continuation text: the container prefix may be dropped
        self.alldrop = lazy         # every inner container has dropped its prefix on this line
        self.starts = starts or []


class Ctx:
    """Per-block writing context."""
    __slots__ = ('indent0', 'must_interrupt', 'prev_direct_para', 'bullet', 'last')

    def __init__(self, indent0=False, must_interrupt=False, prev_direct_para=False, bullet=None,
                 last=False):
        self.indent0 = indent0                    # block must start at column 0 of its container
        self.must_interrupt = must_interrupt      # block directly follows an open paragraph
        self.prev_direct_para = prev_direct_para  # ... which is its direct sibling
        self.bullet = bullet                      # last bullet character already on this line
        self.last = last                          # block ends the document


def _clone_without_defs(blocks):
    out = []
    for b in blocks:
        if b.kind == 'linkdef':
            continue
        if b.kind == 'quote':
            c = Node('quote', children=_clone_without_defs(b.children))
            c.id = b.id
            out.append(c)
        elif b.kind == 'list':
            items = []
            for it in b.items:
                ci = Node('item', children=_clone_without_defs(it.children))
                ci.id = it.id
                items.append(ci)
            c = Node('list', ordered=b.ordered, tight=b.tight, start=b.start, items=items)
            c.id = b.id
            out.append(c)
        else:
            out.append(b)
    return out


def _all_defs(blocks, acc):
    for b in blocks:
        if b.kind == 'linkdef':
            acc.append(b)
        elif b.kind == 'quote':
            _all_defs(b.children, acc)
        elif b.kind == 'list':
            for it in b.items:
                _all_defs(it.children, acc)
    return acc


class Writer:
    def __init__(self, spelling):
        self.canon = spelling.canonical
        self.r = random.Random('docs-spell|%s' % (spelling.seed,))
        r = self.r
        if self.canon:
            self.p_lazy = 0.0
            self.p_noblank = 0.0
            self.p_indent = 0.0
            self.defs_place = 'asis'
        else:
            self.p_lazy = r.choice([0.0, 0.3, 0.6, 0.9])
            self.p_noblank = r.choice([0.0, 0.5, 0.9])
            self.p_indent = r.choice([0.0, 0.3, 0.7])
            self.defs_place = r.choice(['asis', 'asis', 'asis', 'top', 'bottom'])
        b = spelling.bias
        self.p_lazy = b.get('lazy', self.p_lazy)
        self.p_noblank = b.get('noblank', self.p_noblank)
        self.p_indent = b.get('indent', self.p_indent)
        self.defs_place = b.get('defs', self.defs_place)
        self.p_blank_start = b.get('blank_start', 0.12)
        self.lead = b.get('lead')
        self.unclosed = False
        self.blank_started = set()      # ids of items written with an empty marker line

    # -- choice helpers -------------------------------------------------------------------
    def pick(self, options):
        return options[0] if self.canon else self.r.choice(options)

    def chance(self, p):
        return (not self.canon) and self.r.random() < p

    def indent(self, ctx=None):
        if ctx is not None and ctx.indent0:
            return 0
        return self.r.randint(1, 3) if self.chance(self.p_indent) else 0

    # -- inlines --------------------------------------------------------------------------
    def inlines(self, inl, parent_char=None):
        out = []
        n = len(inl)
        for i, x in enumerate(inl):
            k = x.kind
            if k == 'text':
                out.append(x.s)
            elif k in ('em', 'strong'):
                if getattr(x, 'glued', False):
                    c = '*'
                else:
                    opts = ['*', '_']
                    if parent_char in opts and (i == 0 or i == n - 1):
                        opts.remove(parent_char)
                    c = self.pick(opts)
                d = c if k == 'em' else c * 2
                out.append(d + self.inlines(x.children, c) + d)
            elif k == 'del':
                out.append('~~' + self.inlines(x.children, '~') + '~~')
            elif k == 'code':
                out.append(self.code_span(x.s))
            elif k == 'link':
                out.append('[' + self.inlines(x.children) + ']' + self.link_tail(x.dest, x.title))
            elif k == 'image':
                out.append('![' + self.inlines(x.children) + ']' + self.link_tail(x.dest, x.title))
            elif k in ('reflink', 'refimage'):
                bang = '!' if k == 'refimage' else ''
                if x.form == 'full':
                    out.append('%s[%s][%s]' % (bang, self.inlines(x.children), x.label))
                elif x.form == 'collapsed':
                    out.append('%s[%s][]' % (bang, x.label))
                else:
                    out.append('%s[%s]' % (bang, x.label))
            elif k == 'autolink':
                out.append('<' + x.url + '>')
            elif k == 'esc':
                out.append('\\' + x.ch)
            elif k == 'ent':
                out.append(x.src)
            elif k == 'rawhtml':
                out.append(x.s)
            elif k in ('soft', 'hard'):
                # a line break inside emphasis / link text (directed paragraphs only; `para`
                # splits the text at the line feed); '\n' in a code span or a title works alike
                out.append(('' if k == 'soft' else self.pick(['  ', '\\'])) + '\n')
            else:
                raise ValueError('inline %s not allowed here' % k)
        return ''.join(out)

    def code_span(self, s):
        longest = run = 0
        for ch in s:
            run = run + 1 if ch == '`' else 0
            longest = max(longest, run)
        n = longest + 1 + (1 if self.chance(0.25) else 0)
        if longest == 0 and n == 1 and self.chance(0.15):
            n = 3
        pad = ' ' if (s.startswith('`') or s.endswith('`') or self.chance(0.25)) else ''
        return '`' * n + pad + s + pad + '`' * n

    def link_tail(self, dest, title):
        bare_ok = dest != '' and ' ' not in dest
        forms = ([dest] if bare_ok else []) + ['<%s>' % dest] + ([''] if dest == '' else [])
        d = self.pick(forms)
        t = ''
        if title:
            q = self.pick(['"%s"', "'%s'", '(%s)'])
            if d == '':
                d = '<>'
            t = self.pick([' ', '  ', ' ']) + q % title
        lead = ' ' if self.chance(0.1) else ''
        trail = ' ' if self.chance(0.1) else ''
        return '(' + lead + d + t + trail + ')'

    def inline_lines(self, inl):
        """Split a paragraph's inlines at the top-level breaks: [(text, break_after)]."""
        lines, cur = [], []
        for x in inl:
            if x.kind in ('soft', 'hard'):
                lines.append((cur, x.kind))
                cur = []
            else:
                cur.append(x)
        lines.append((cur, None))
        return [(self.inlines(c), br) for c, br in lines]

    # -- leaf blocks ----------------------------------------------------------------------
    def para(self, b, ctx):
        out = []
        parts = self.inline_lines(b.inl)
        if any('\n' in text for text, _ in parts):
            # line feeds written by nested inlines: more paragraph continuation lines
            parts = [(sub, br if j == text.count('\n') else None)
                     for text, br in parts for j, sub in enumerate(text.split('\n'))]
        for i, (text, br) in enumerate(parts):
            if br == 'hard':
                text += self.pick(['  ', '\\', '   '])
            elif br == 'soft' and self.chance(0.1):
                text += ' '
            if i == 0:
                out.append(L(' ' * self.indent(ctx) + text, starts=[b.id]))
            else:
                out.append(L(' ' * self.indent() + text, lazy=True))
        return out

    def atx(self, b, ctx):
        s = ' ' * self.indent(ctx) + '#' * b.level + self.pick([' ', '  ', '   '])
        s += self.inlines(b.inl)
        if not b.inl and self.chance(0.3):
            # an empty heading (directed trees only) may be the bare opening sequence
            return [L(s.rstrip(' '), starts=[b.id])]
        if self.chance(0.4):
            sep = self.pick([' ', '  '])
            if not b.inl and self.chance(0.5):
                sep = ''            # '### ###': one space serves the opening and the closing run
            s += sep + '#' * self.r.randint(1, 8) + self.pick(['', ' ', '  '])
        return [L(s, starts=[b.id])]

    def setext(self, b, ctx):
        c = '=' if b.level == 1 else '-'
        n = 3 if self.canon else self.r.choice([1, 2, 3, 3, 5, 10])
        return [L(' ' * self.indent(ctx) + self.inlines(b.inl), starts=[b.id]),
                L(' ' * self.indent() + c * n + self.pick(['', '', ' ', '  ']))]

    def hr(self, b, ctx):
        forms = ['***', '---', '___', '* * *', '- - -', '_ _ _', '*****', '--  -', '** * ** *',
                 '_____']
        if ctx.bullet:
            forms = [f for f in forms if f[0] != ctx.bullet]
        if ctx.must_interrupt and ctx.prev_direct_para:
            forms = [f for f in forms if set(f) != {'-'}]
        return [L(' ' * self.indent(ctx) + self.pick(forms) + self.pick(['', '', ' ']),
                  starts=[b.id])]

    def fence(self, b, ctx):
        c = self.pick(['`', '~'])
        n = 3 if self.canon else self.r.choice([3, 3, 4, 5])
        ind = self.indent(ctx)
        info = b.info
        opener = ' ' * ind + c * n + (self.pick(['', ' ']) if info else '') + info
        if info and self.chance(0.2):
            opener += ' '
        out = [L(opener, starts=[b.id])]
        for ln in b.lines:
            out.append(L(' ' * ind + ln, blank=False) if ln else L('', blank=True))
        unclosed = ctx.last and self.chance(0.3) and not (b.lines and b.lines[-1] == '')
        if unclosed:
            self.unclosed = True
        else:
            m = n + (self.r.randint(0, 2) if self.chance(0.3) else 0)
            out.append(L(' ' * self.indent() + c * m + self.pick(['', '', '  '])))
        return out

    def icode(self, b, ctx):
        return [L('    ' + ln if ln else '', blank=(ln == ''),
                  starts=[b.id] if i == 0 else None) for i, ln in enumerate(b.lines)]

    def html(self, b, ctx):
        return [L(ln, starts=[b.id] if i == 0 else None)
                for i, ln in enumerate(b.text.split('\n'))]

    def linkdef(self, b, ctx):
        dest = self.pick([b.dest, '<%s>' % b.dest]) if ' ' not in b.dest else '<%s>' % b.dest
        s = ' ' * self.indent(ctx) + '[%s]:' % b.label + self.pick([' ', '  ', '']) + dest
        if not b.title:
            return [L(s + self.pick(['', '', ' ']), starts=[b.id])]
        t = self.pick(['"%s"', "'%s'", '(%s)']) % b.title
        if self.chance(0.2):
            return [L(s, starts=[b.id]), L(' ' * self.indent() + t)]
        return [L(s + self.pick([' ', '  ']) + t, starts=[b.id])]

    def table(self, b, ctx):
        ncol = len(b.aligns)

        def row(cells, ident, node=None):
            texts = [self.inlines(c.inl) for c in cells]
            outer = ncol == 1 or any(t == '' for t in texts) or not self.chance(0.3)
            # directed trees: a body row may be written without its trailing empty cells
            # (`short` = how many), with cells beyond the last column (`extra`: texts; GFM
            # ignores the excess) or, if it is left with one cell, without any pipe (`nopipe`)
            short = getattr(node, 'short', 0)
            if short:
                assert all(t == '' for t in texts[-short:]) and short < len(texts)
                texts = texts[:-short]
            texts = texts + list(getattr(node, 'extra', ()))
            if getattr(node, 'nopipe', False):
                assert len(texts) == 1 and texts[0] and '|' not in texts[0]
                return L(texts[0], starts=ident)
            parts = []
            for t in texts:
                lp = self.pick([' ', '', '  '])
                rp = self.pick([' ', '', '  '])
                if t == '':
                    # (directed trees: `bare` rows write an empty cell without any space, '||')
                    lp, rp = ('', '') if getattr(node, 'bare', False) else (' ', '')
                if t.endswith('\\') and rp == '':
                    rp = ' '
                parts.append(lp + t + rp)
            s = '|'.join(parts)
            if outer:
                s = '|' + s + '|'
            else:
                s = s.strip(' ')
                if s.endswith('\\'):
                    s += ' |'
            return L(s, starts=ident)

        out = [row(b.header.cells, [b.id, b.header.id] + [c.id for c in b.header.cells])]
        delim = []
        for a in b.aligns:
            d = '-' * (3 if self.canon else self.r.choice([3, 3, 4, 6]))
            if a == 'left':
                d = ':' + d
            elif a == 'right':
                d = d + ':'
            elif a == 'center':
                d = ':' + d + ':'
            delim.append(self.pick([' %s ', '%s', ' %s']) % d)
        s = '|'.join(delim)
        if ncol == 1 or not self.chance(0.3):
            s = '|' + s + '|'
        else:
            s = s.strip(' ')
        out.append(L(s))
        for r in b.rows:
            out.append(row(r.cells, [r.id] + [c.id for c in r.cells], r))
        return out

    # -- containers -----------------------------------------------------------------------
    def quote(self, b, ctx):
        inner = self.blocks(b.children, Ctx(bullet=ctx.bullet, last=ctx.last))
        if not inner:
            return [L(' ' * self.indent(ctx) + '>', starts=[b.id])]
        out = []
        for i, ln in enumerate(inner):
            ind = self.indent(ctx) if i == 0 else self.indent()
            if i > 0 and ln.lazy and ln.alldrop and self.chance(self.p_lazy):
                ln.text = ' ' * ind + ln.text
                out.append(ln)
                continue
            if ln.blank:
                ln.text = ' ' * ind + self.pick(['>', '> '])
                ln.blank = False
            else:
                sp = ' ' if (ln.text.startswith((' ', '\t')) or not self.chance(0.3)) else ''
                ln.text = ' ' * ind + '>' + sp + ln.text
            ln.alldrop = False
            if i == 0:
                ln.starts = [b.id] + ln.starts
            out.append(ln)
        return out

    def list(self, b, ctx):
        out = []
        li = self.indent(ctx)
        if b.ordered:
            delim = self.pick(['.', ')'])
            same_number = self.chance(0.2)
            # leading zeros only where the list does not have to interrupt a paragraph
            zeros = self.r.randint(1, 2) if (self.chance(0.1) and not ctx.must_interrupt) else 0
        else:
            opts = [c for c in ['-', '*', '+'] if c != ctx.bullet or c == '+']
            # '* ***' or '-     ---' would be a thematic break, not an item holding code
            for it in b.items:
                ch = it.children
                if ch and ch[0].kind == 'icode' and set(ch[0].lines[0]) <= set('*-_ '):
                    opts = ['+']
            bullet = self.pick(opts)
        nitems = len(b.items)
        for k, it in enumerate(b.items):
            if b.ordered:
                num = b.start if same_number else b.start + k
                digits = str(num)
                if zeros and len(digits) + zeros <= 9:
                    digits = '0' * zeros + digits
                marker = digits + delim
                line_bullet = ctx.bullet if k == 0 else None
            else:
                marker = bullet
                line_bullet = bullet
            starts = ([b.id] if k == 0 else []) + [it.id]
            children = it.children
            if k > 0:
                # gap between items; an item may fix it itself (attribute `gap`: number of blank
                # lines before the item; the caller then answers for the list's `tight` flag)
                g = getattr(it, 'gap', None)
                for _ in range((0 if b.tight else 1) if g is None else int(g)):
                    out.append(L('', blank=True))
            if not children:
                out.append(L(' ' * li + marker, starts=starts))
                continue
            first = children[0]
            interrupting = k == 0 and ctx.must_interrupt
            blank_start = (not interrupting) and self.chance(self.p_blank_start)
            pad = 1
            if not blank_start and first.kind != 'icode':
                pad = self.pick([1, 1, 2, 3, 4]) if not self.canon else 1
            width = li + len(marker) + pad
            is_last = ctx.last and k == nitems - 1
            inner = self.blocks(children,
                                Ctx(bullet=(None if blank_start else line_bullet), last=is_last),
                                tight=b.tight, first_indent0=not blank_start,
                                all_blank=(not b.tight and nitems == 1))
            if blank_start:
                self.blank_started.add(it.id)
                out.append(L(' ' * li + marker, starts=starts))
            for i, ln in enumerate(inner):
                if i == 0 and not blank_start:
                    ln.text = ' ' * li + marker + ' ' * pad + ln.text
                    ln.starts = starts + ln.starts
                    ln.alldrop = False
                elif ln.blank:
                    ln.text = ''
                elif ln.lazy and ln.alldrop and self.chance(self.p_lazy):
                    ln.text = ' ' * self.r.randint(0, min(3, width - 1)) + ln.text
                else:
                    ln.text = ' ' * width + ln.text
                    ln.alldrop = False
                out.append(ln)
        return out

    def blocks(self, blocks, ctx, tight=False, first_indent0=False, all_blank=False):
        """Write a sibling sequence; ctx describes the position of the first block."""
        out = []
        prev = None
        nb = len(blocks)
        for i, b in enumerate(blocks):
            c = Ctx(last=ctx.last and i == nb - 1)
            if i == 0:
                c.indent0 = ctx.indent0 or first_indent0
                c.must_interrupt = ctx.must_interrupt
                c.prev_direct_para = ctx.prev_direct_para
                c.bullet = ctx.bullet
            else:
                can_omit = may_omit_blank(prev, b)
                # a block may fix the gap before it itself (attribute `gap`: number of blank
                # lines; the caller then answers for the `tight` flag of the enclosing list)
                g = getattr(b, 'gap', None)
                if g is not None:
                    assert g or can_omit, ('gap cannot be omitted', prev, b)
                    blank = bool(g)
                elif tight:
                    assert can_omit, ('tight gap impossible', prev, b)
                    blank = False
                elif all_blank or not can_omit:
                    blank = True
                else:
                    blank = not self.chance(self.p_noblank)
                if blank and g is not None:
                    out.extend(L('', blank=True) for _ in range(int(g)))
                elif blank:
                    out.append(L('', blank=True))
                    if self.chance(0.1):
                        out.append(L('', blank=True))
                else:
                    t = tail_leaf(prev)
                    if t is not None and t.kind in ('para', 'linkdef'):
                        c.must_interrupt = True
                        c.prev_direct_para = t is prev
                if prev.kind == 'list':
                    c.indent0 = True
            if b.kind in ('html', 'table'):
                c.indent0 = True
            out.extend(getattr(self, b.kind)(b, c))
            prev = b
        return out


def write(tree, spelling):
    """Markdown text for `tree` under `spelling`, with the start line of every block."""
    w = Writer(spelling)
    eff = tree
    if w.defs_place != 'asis':
        defs = _all_defs(tree, [])
        if defs:
            body = _clone_without_defs(tree)
            eff = defs + body if w.defs_place == 'top' else body + defs
    lead = 0 if w.canon else w.r.choice([0, 0, 0, 1, 2])
    if w.lead is not None:
        lead = w.lead
    lines = w.blocks(eff, Ctx(last=True))
    texts = [''] * lead + [ln.text for ln in lines]
    where = {}
    for n, ln in enumerate(lines):
        for i in ln.starts:
            where[i] = lead + n + 1
    text = '\n'.join(texts)
    end = '\n' if w.canon else w.r.choice(['\n', '\n', '\n\n', ''])
    if w.unclosed:
        end = '\n'
    res = Written(text + end, where, tree, spelling)
    res.blank_start_items = set(w.blank_started)
    return res
