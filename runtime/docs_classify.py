"""Root-cause attribution for failures found with the DOCS generator (used by b03 and b13).

`features(tree)` looks for the structural triggers of the deviations of the pinned mistletoe tree
that were triaged by hand against CommonMark 0.30 / GFM (each slug names the mechanism; see the
table below for the rule it violates).  The attribution is a label only: every failure is still
reported with its own input, whatever label it gets.  No mistletoe imports.
"""
from runtime.docs_tree import tail_leaf, can_interrupt_kind, block_children

CLASSES = {
    'fence-closed-by-line-with-info':
        'CodeFence.read closes on any line that starts with the opener and is one word; 4.5: a '
        'closing fence may be followed only by spaces ("```\\n```abc\\n```")',
    'setext-disabled-in-quote':
        'Quote.read sets Paragraph.parse_setext=False; 4.3/5.1: "> foo\\n> ===" is a heading',
    'setext-inline-parsed-before-later-linkdefs':
        'Paragraph.read builds SetextHeading (inline parse) during the block phase; 4.7: a '
        'definition may follow its use ("[foo]\\n===\\n\\n[foo]: /u")',
    'table-without-rows-renders-empty-tbody':
        'HtmlRenderer.render_table always emits <tbody>; GFM tables: no <tbody> without rows',
    'empty-list-item-absorbs-unindented-line':
        'ListItem.read treats the line after an item that starts with a blank line as lazy '
        'continuation; 5.2 rule 3 requires W+1 spaces of indent ("-\\nfoo")',
    'quote-lazy-continuation-without-open-paragraph':
        'Quote.read approximates "a paragraph is open" by flags of the previous line; 5.1: '
        'laziness applies only to paragraph continuation text ("> ***\\nfoo")',
    'list-item-lazy-continuation-without-open-paragraph':
        'ListItem.read accepts any non-interrupting unindented line; 5.2: laziness applies only '
        'to paragraph continuation text ("- # a\\nfoo")',
    'quote-lazy-continuation-rejected-by-previous-line-shape':
        'Quote.read refuses a lazy line when the previous quoted line, seen without its list '
        'indentation, looks like indented code; 5.1 laziness ("> -   a\\n>\\n>     b\\nc")',
    'table-check-on-marker-line-splits-list':
        'ListItem.read asks Table.check_interrupts_paragraph about the next item\'s marker line; '
        'when that item starts with a table header the list is cut in two ("- a\n- | b |\n  '
        '|---|"); 5.3: consecutive items with the same marker form one list',
    'table-rows-continue-into-next-block':
        'Table.read takes every following line that contains "|" as a row; GFM tables: the table '
        'is broken at the beginning of another block-level structure ("|a|\n|-|\n> |b|\n> |-|")',
    'quote-marker-accepted-beyond-3-spaces':
        'Quote.read continues the quote on any line whose lstrip() starts with ">"; 5.1: the '
        'marker may be indented at most 3 spaces (">\n    > x" is a quote, then indented code)',
    'hard-break-after-escaped-backslash':
        'LineBreak pattern takes the second backslash of "\\\\\\\\\\n" as a hard break; 6.7/2.4',
    'strikethrough-ignores-escaped-tilde':
        'Strikethrough pattern "~~(.+?)~~" closes inside "\\\\~~~"; 2.4 backslash escapes',
    'tight-list-made-loose-by-blank-before-next-list':
        'ListItem.read keeps the trailing blank line in the item when the next line is a marker '
        'of another list type; 5.3: a list is loose only if blank lines separate items/children',
    'table-row-excess-cells-rendered':
        'TableRow renders every cell of a body row; GFM tables: "The remainder of the table\'s '
        'rows may vary in the number of cells. [...] If greater, the excess is ignored" '
        '("|a|\n|-|\n|b|c|" has one <td>)',
    'table-empty-cell-without-padding-dropped':
        'TableRow.__init__ drops the empty strings of the split row (filter(None, ...)), so an '
        'empty cell written without a space disappears and the later cells shift left; GFM '
        'tables: cells are what the pipes separate, spaces around the content are optional '
        '("|a|b|c|\n|-|-|-|\n|d||e|" has the cells d, "", e)',
    'table-row-without-pipe-ends-table':
        'Table.read takes only following lines that contain "|"; GFM tables (example 202): the '
        'table is broken at the first empty line or the beginning of another block-level '
        'structure, so a plain line is a row of one cell ("|a|b|\n|-|-|\n|c|d|\nbar")',
}


def _all_inl(inl):
    for x in inl:
        yield x
        if hasattr(x, 'children'):
            yield from _all_inl(x.children)


def _block_inl(b):
    if b.kind in ('para', 'atx', 'setext'):
        return list(_all_inl(b.inl))
    if b.kind == 'table':
        return [x for r in [b.header] + b.rows for c in r.cells for x in _all_inl(c.inl)]
    return []


def features(tree):
    """Triggers present in the tree as given or with its link definitions moved away (the
    writer may relocate definitions, which changes which blocks are adjacent)."""
    from runtime.docs_write import _clone_without_defs, _all_defs
    defs = _all_defs(tree, [])
    if not defs:
        return _features(tree)
    body = _clone_without_defs(tree)
    return _features(tree) | _features(defs + body) | _features(body + defs)


def _features(tree):
    f = set()

    def walk(bs, in_quote, list_in_quote, more_after):
        for i, b in enumerate(bs):
            after = more_after or i < len(bs) - 1
            inl = _block_inl(b)
            if b.kind == 'setext':
                if in_quote:
                    f.add('setext-disabled-in-quote')
                if any(x.kind in ('reflink', 'refimage') for x in inl):
                    f.add('setext-inline-parsed-before-later-linkdefs')
            if b.kind == 'fence' and any(l.startswith('```') for l in b.lines):
                f.add('fence-closed-by-line-with-info')
            if b.kind == 'table' and not b.rows:
                f.add('table-without-rows-renders-empty-tbody')
            if b.kind == 'table':
                # row spellings of the directed trees of b03 (docs_write.Writer.table)
                if any(getattr(r, 'extra', None) for r in b.rows):
                    f.add('table-row-excess-cells-rendered')
                if any(getattr(r, 'bare', False) and any(not c.inl for c in r.cells[:-1])
                       for r in b.rows):
                    f.add('table-empty-cell-without-padding-dropped')
                if any(getattr(r, 'nopipe', False) for r in b.rows):
                    f.add('table-row-without-pipe-ends-table')
            for x, y in zip(inl, inl[1:]):
                if x.kind == 'esc' and x.ch == '\\' and y.kind in ('soft', 'hard'):
                    f.add('hard-break-after-escaped-backslash')
            for x in inl:
                if x.kind == 'del' and any(y.kind == 'esc' and y.ch == '~' for y in _all_inl(x.children)):
                    f.add('strikethrough-ignores-escaped-tilde')
            if b.kind == 'para' and list_in_quote and any(x.kind in ('soft', 'hard') for x in b.inl):
                f.add('quote-lazy-continuation-rejected-by-previous-line-shape')
            if b.kind == 'list':
                for k, it in enumerate(b.items):
                    if not it.children and k == len(b.items) - 1 and after:
                        f.add('empty-list-item-absorbs-unindented-line')
                    first = it.children[0] if it.children else None
                    while first is not None and first.kind == 'list':     # '2. - | a |'
                        ch = first.items[0].children
                        first = ch[0] if ch else None
                    if k > 0 and first is not None and first.kind == 'table':
                        f.add('table-check-on-marker-line-splits-list')
                    walk(it.children, in_quote, in_quote, after or k < len(b.items) - 1)
            elif b.kind == 'quote':
                walk(b.children, True, list_in_quote, after)
        for a, b in zip(bs, bs[1:]):
            if a.kind in ('quote', 'list'):
                t = tail_leaf(a)
                if t is None:
                    # '>' alone is handled (blank flag); an item that is empty is the other class;
                    # an empty container nested in `a` ('>>', '- >') is not
                    closed = bool(a.children if a.kind == 'quote' else a.items[-1].children)
                else:
                    closed = t.kind not in ('para', 'linkdef')
                # a following list matters when it cannot interrupt a paragraph; any list can be
                # spelled with a first item that starts with a blank line, which cannot
                if closed and b.kind in ('para', 'setext', 'linkdef', 'icode', 'table', 'list'):
                    # which container actually holds the tail decides whose reader goes wrong
                    f.add('quote-lazy-continuation-without-open-paragraph' if a.kind == 'quote'
                          else 'list-item-lazy-continuation-without-open-paragraph')
            if a.kind == 'table' and b.kind == 'quote':
                first = b
                while first is not None and first.kind in ('quote', 'list'):
                    ch = first.children if first.kind == 'quote' else first.items[0].children
                    first = ch[0] if ch else None
                if first is not None and first.kind == 'table':
                    f.add('table-rows-continue-into-next-block')
            if a.kind == 'quote' and b.kind == 'icode' and b.lines[0].startswith('>'):
                f.add('quote-marker-accepted-beyond-3-spaces')
            if a.kind == 'list' and a.tight and b.kind == 'list':
                f.add('tight-list-made-loose-by-blank-before-next-list')
    walk(tree, False, False, False)
    return f


def classify(tree):
    f = features(tree)
    if not f:
        return 'unclassified'
    return '+'.join(sorted(f))
