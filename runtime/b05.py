"""C05 (bounded): blocks separated by a blank line are parsed independently (pair law).

For texts A, B (HtmlRenderer token set) with
    A ends with '\\n', has no trailing blank line, and -- judged by parsing A alone -- its last top-level
    block is a Paragraph, Heading, SetextHeading, ThematicBreak, Quote or Table;
    B is not empty and does not start with a blank line;
    Document(A), Document(B) and Document(A + '\\n' + B) define no link references;
contract
    blocks_with_line_numbers(Document(A + '\\n' + B))
        == blocks_with_line_numbers(Document(A)) ++ shift(blocks_with_line_numbers(Document(B)), lines(A) + 1)
(lists, code blocks and HTML blocks are deliberately not in the closed set.)
"""
import random

from runtime.common import use_repo, spec_examples, alpha, SIGMA12, pool_map, merge
from runtime.astdump import dump_children, shift, diff, brief
from runtime.mtutil import reset_state, BLOCKS, keep_smallest

use_repo()
from mistletoe import Document  # noqa: E402
from mistletoe.html_renderer import HtmlRenderer  # noqa: E402

MAX_KEEP = 400
CLOSED = ('Paragraph', 'Heading', 'SetextHeading', 'ThematicBreak', 'Quote', 'Table')


def norm_a(text):
    lines = text.split('\n')
    while lines and lines[-1].strip() == '':
        lines.pop()
    return '\n'.join(lines) + '\n' if lines else None


def norm_b(text):
    if not text or text.split('\n', 1)[0].strip() == '':
        return None
    return text


def parse(text):
    """-> (blocks with line numbers, has_footnotes, error)"""
    try:
        d = Document(text)
        return dump_children(d, lines=True), bool(d.footnotes), None
    except RecursionError:
        raise
    except Exception as e:  # noqa
        reset_state()
        return None, None, '%s: %s' % (type(e).__name__, e)


_POOLS = {}
_CACHE = {}


def pool(name):
    """Candidate texts by pool name (deterministic order)."""
    if name not in _POOLS:
        if name == 'spec':
            v = [e['markdown'] for e in spec_examples()]
        elif name == 'alpha':
            v = list(alpha(SIGMA12, 4, 1))
        elif name == 'blocks':
            v = list(BLOCKS)
        elif name == 'tight':
            # a one-line block directly followed by a block that may interrupt it: the second block starts on
            # line 2 of its document (a table under a one-line heading or paragraph, a list under a rule, ...)
            v = [a + '\n' + b for a in ('# Heading', 'foo', '---', '> quote', 'a | b') for b in BLOCKS]
        else:  # two-block documents
            v = [a + '\n\n' + b for i, a in enumerate(BLOCKS) for j, b in enumerate(BLOCKS) if (i + 2 * j) % 5 == 0]
        _POOLS[name] = v
    return _POOLS[name]


def cached(text):
    if text not in _CACHE:
        if len(_CACHE) > 60000:
            _CACHE.clear()
        _CACHE[text] = parse(text)
    return _CACHE[text]


def plain(blocks):
    return all(b['t'] == 'Paragraph' and all(c['t'] == 'RawText' for c in b['c']) for b in blocks)


def work(task):
    """task = (pool of A, index of A, pool of B, list of B indexes)"""
    pa, ia, pb, ibs = task
    stats = {'evaluations': 0, 'distinct_nontrivial': 0, 'contract_evaluations': 0, 'failures': [], 'samples': []}
    A = norm_a(pool(pa)[ia])
    if A is None:
        return stats
    with HtmlRenderer():
        da, fa, err = parse(A)
        if err:
            stats['failures'].append(fail('noraise', A, '', err, 'no exception', 'c01:' + err.split(':')[0]))
            return stats
        if fa or not da or da[-1]['t'] not in CLOSED:
            return stats
        k = A.count('\n') + 1
        for ib in ibs:
            B = norm_b(pool(pb)[ib])
            if B is None:
                continue
            db, fb, err = cached(B)
            if err or fb:
                continue    # B's own failure is reported when it is an A / by C01
            stats['evaluations'] += 1
            dab, fab, err = parse(A + '\n' + B)
            if err:
                stats['failures'].append(fail('noraise', A, B, err, 'no exception', 'c01:' + err.split(':')[0]))
                continue
            if fab:
                continue
            stats['contract_evaluations'] += 1
            if not (plain(da) and plain(db)):
                stats['distinct_nontrivial'] += 1
            want = da + shift(db, k)
            if dab != want:
                stats['failures'].append(fail('c05', A, B, diff(dab, want) + ' || ' + brief(dab), brief(want),
                                              classify(da, db, dab, want)))
            elif len(stats['samples']) < 1 and ia % 97 == 0:
                stats['samples'].append([A, B])
    reset_state()
    return stats


def classify(da, db, dab, want):
    d = diff(dab, want) or ''
    if 'line_number' in d:
        return 'line-number-shift'
    if len(dab) < len(want):
        return 'blocks-merged-across-blank-line'
    if len(dab) > len(want):
        return 'extra-block'
    return 'different-block'


def fail(contract, A, B, observed, expected, klass):
    return {'key': '%s|%r' % (contract, (A, B)), 'contract': contract, 'class': klass, 'input': [A, B],
            'observed': observed, 'expected': expected,
            'replay': 'from mistletoe import Document, HtmlRenderer\nfrom mistletoe.ast_renderer import get_ast\nA, B = %r, %r\n'
                      'with HtmlRenderer():\n    for t in (A, B, A + "\\n" + B): print(get_ast(Document(t))["children"])' % (A, B)}


def tasks(tier, seed):
    rnd = random.Random(1000003 * seed + 17)
    out = []
    n_spec, n_alpha = len(pool('spec')), len(pool('alpha'))
    for i in range(n_spec):
        if tier == 'thorough':
            out.append(('spec', i, 'spec', list(range(n_spec))))
        else:
            out.append(('spec', i, 'spec', sorted(rnd.sample(range(n_spec), 200))))
        out.append(('spec', i, 'blocks', list(range(len(BLOCKS)))))
    ka = 100 if tier == 'thorough' else 16
    for i in range(n_alpha):
        out.append(('alpha', i, 'alpha', sorted(rnd.sample(range(n_alpha), ka))))
    for i in range(len(BLOCKS)):
        out.append(('blocks', i, 'blocks', list(range(len(BLOCKS)))))
        out.append(('blocks', i, 'spec', sorted(rnd.sample(range(n_spec), 100))))
    for i in range(len(pool('two'))):
        out.append(('two', i, 'blocks', list(range(len(BLOCKS)))))
    for i in range(len(BLOCKS)):
        out.append(('blocks', i, 'tight', list(range(len(pool('tight'))))))
    return out


def run(tier, seed, workers):
    ts = tasks(tier, seed)
    res = pool_map(work, ts, workers)
    out = merge(res)
    by_class = {}
    for f in out['failures']:
        by_class[f['class']] = by_class.get(f['class'], 0) + 1
    out.update({
        'domain': 'pairs (A,B): spec x spec (%s), spec x %d block specimens, ALPHA(SIGMA12,4) x ALPHA(SIGMA12,4) (%d seeded '
                  'partners per A), specimens x specimens, specimens x 100 seeded spec examples, %d two-block documents x '
                  'specimens, specimens x 230 tight two-block documents (second block on line 2 of its document); A with trailing blank lines stripped; only pairs meeting the side conditions are counted; '
                  'HtmlRenderer token set' % ('all pairs' if tier == 'thorough' else '200 seeded partners per A', len(BLOCKS),
                                             100 if tier == 'thorough' else 16, len(pool('two'))),
        'rule': 'A enumerated exhaustively over each pool, partners drawn with random.Random(1000003*seed+17); a pair is '
                'non-trivial when A or B contains a block other than a plain-text paragraph',
        'exhaustive': False, 'failures_total': len(out['failures']),
        'failures_by_class': dict(sorted(by_class.items(), key=lambda kv: -kv[1])),
        'failures': keep_smallest(out['failures'], MAX_KEEP)})
    return out
