"""mdgen: seeded *structural* generator of Markdown documents (no mistletoe imports).

A document is a tree of nodes  [kind, attrs(dict), children(list of nodes)]  which `render(tree)`
serialises to text.  All spelling freedom (marker characters, indentation, padding, fence length,
closing '#' runs, lazy continuation lines ...) lives in `attrs`, so a tree can be *shrunk*
structurally (`shrink`) without ever leaving the generated domain.

Modes (Gen(seed, mode)):
  'free'    every block/inline construct, canonical and non-canonical spellings, nesting <= 4.
            A small fraction of documents carries constructs that are known to be delicate for
            the Markdown renderer (empty fenced block, whitespace-only lines, empty list item
            followed by a blank line, escaped pipe in a table cell) -- they are *inside* C09's
            quantifier, so they are generated, but rarely, so that they cannot mask other things.
  'normal'  documents already written in MarkdownRenderer's own normal form (what the renderer
            emits for the construct; established by reading mistletoe/markdown_renderer.py):
            paragraph lines unindented; '#'*n + ' ' + text [+ ' ' + closing run]; setext text
            unindented, underline kept (indent allowed, no trailing blanks); thematic break line
            kept verbatim; fence = indent + delimiter + info, closing fence == opening delimiter
            at the same indent, non-empty content, content lines indented >= fence indent, no
            whitespace-only lines; indented code = 4 spaces + line; quote lines '> ' (blank line
            inside a quote is '> '); list item = indent + leader + 1..4 blanks, continuation lines
            indented by exactly that width, blank lines empty, an empty item is 'leader + blank';
            table '| a   | b   |' padded to column width (>= 3) with separator '| --- | :-: | --: |';
            HTML block verbatim; link definitions '[label]: dest "title"' one per line; inline
            links '[text](dest "title")' without padding blanks; code spans on one line.
            Not normal form (found by running the renderer, so not generated in this mode): a
            setext underline indented inside a block quote (mistletoe does not recognise setext
            headings there), blank-padded hard breaks inside setext heading text (the lines are
            stripped), an empty list item followed by a blank line, an indented block right
            after a list (it joins the last item), a block starter at the start of a text line.
  'reflowfree' like 'reflow' but with the non-canonical spellings of 'free' (no lazy lines).
  'reflow'  C10 documents: prose vocabulary restricted to letter-only words (optionally followed
            by one of , . ; ! ?), so that no word can be mistaken for a block marker at the start
            of a line; paragraphs / setext headings / link definitions with emphasis, code spans,
            links, images, autolinks, hard breaks; ATX headings, tables, code blocks, HTML blocks as
            not-to-be-rebroken blocks whose lines are recognisable (code lines start with k<digit>,
            HTML lines with '<', table lines with '|', headings with '#'); nesting <= 4.

Never generated (C09/C10 exclusions): character references ('&' is never emitted), backslashes
inside link destinations/titles, paragraph continuation lines indented >= 4 relative to their
container, tabs, line separators other than '\\n'.
"""
import copy
import random
import re

WORDS = ['a', 'I', 'be', 'to', 'of', 'and', 'the', 'fox', 'lazy', 'quick', 'brown', 'jumps', 'over',
         'markdown', 'paragraph', 'rendering', 'implementation', 'é', 'naïve', 'Über', 'x', 'yz']
ODD = ["it's", 'end.', 'well,', 'what?', 'yes!', '(paren)', '"quoted"', 'a/b', 'semi;', 'co:lon',
       '50%', '$5', 'a=b', 'x+y', 'snake_case', 'star*red', '2*3', 'a<b', 'c>d', '#tag', '1st',
       '-dash', '+plus', '=eq', '~tilde', '1.', '2)', '>', '<', '#', '-', '+', '*', '_', '=',
       '[x]', ']', '[', '!', '`', 'a|b', '1986.', '***', '---', '===']
SAFE_ODD = ["it's", 'end.', 'well,', 'what?', 'yes!', '(paren)', '"quoted"', 'a/b', 'semi;', 'co:lon',
            '50%', '$5', 'a=b', 'x+y', 'snake_case', 'star*red', '2*3', 'a<b', 'c>d', '1st', 'a|b'.replace('|', '!')]
ESC = ['\\*', '\\_', '\\[', '\\]', '\\#', '\\`', '\\\\', '\\<', '\\>', '\\!', '\\-', '\\+', '\\.', '\\~']
RWORDS = ['a', 'I', 'be', 'to', 'of', 'and', 'the', 'fox', 'lazy', 'quick', 'brown', 'jumps', 'over',
          'markdown', 'paragraph', 'rendering', 'implementation', 'x', 'yz', 'word', 'wrap',
          'antidisestablishment', 'longerwordthanusual', 'mid', 'size', 'tokens']
RSUF = ['', '', '', '', ',', '.', ';', '!', '?']
DESTS = ['/url', 'http://example.com/a?b=c', 'x', '#frag', '/a(b)c', 'a%20b', '', '/q"uote', '/é']
ADESTS = ['/url', 'a b', '', 'x(y', 'http://example.com/with space']
TITLES = ['title', 'two words', "it's", 'say "hi"', 'a (b) c', 'tri ple word', '']
LABELS = ['foo', 'Foo Bar', 'bar baz', 'x1', 'é', 'ref']
AUTOS = ['<http://example.com/x>', '<mailto:a@b.c>', '<a@b.co>', '<ftp://h/p?q=1>']
HTMLS = ['<span class="c">', '</span>', '<br/>', '<!-- note -->', '<b>', '</b>', '<?php x ?>',
         '<a href="u">', '</a>', '<x-y z=\'1\'>']
HTMLBLOCKS = [['<div class="x">', 'inner *text*', '</div>'], ['<!-- comment', 'more -->'],
              ['<pre>', 'raw', '', '  code', '</pre>'], ['<custom-tag attr="v">'],
              ['<?php', 'echo 1;', '?>'], ['<!DOCTYPE html>'], ['<![CDATA[', 'x', ']]>'],
              ['<table>', '  <tr><td>', '  hi', '  </td></tr>', '</table>'], ['</div>'], ['<hr/>'],
              ['<script>', 'var a = "*x*";', '</script> tail']]
RHTMLBLOCKS = [['<div class="x">', '<p>inner text that is fairly long and must stay here</p>', '</div>'],
               ['<!-- comment -->'], ['<table>', '<tr><td>cell one two three four</td></tr>', '</table>']]
INFOS = ['', '', 'python', ' py', 'sh  extra words', '  c++  ', 'a=b']
CODELINES = ['x = 1', '  indented', 'if a:', '    deep', '*not em*', '> not quote', '- not list',
             '# not heading', '<b>', 'a  b', '[x]: y', '| a | b |', '~~~', '`', 'trailing  ']

# canonical values of the spelling attributes, per node kind (used by shrink and by 'normal')
CANON = {
    'p': {'ind': (0,), 'lazy': 0, 'gap': 1},
    'h': {'ind': 0, 'sp': 1, 'spc': 1, 'trail': 0, 'close': '', 'gap': 1},
    'sh': {'ind': (0,), 'uind': 0, 'trail': 0, 'n': 3, 'gap': 1, 'lazy': 0},
    'hr': {'line': '***', 'gap': 1},
    'fc': {'ind': 0, 'n': 3, 'cn': 0, 'cind': None, 'ctrail': 0, 'info': '', 'unclosed': False,
           'gap': 1, 'short': False},
    'ic': {'gap': 1},
    'q': {'ind': 0, 'nosp': False, 'bl': '> ', 'gap': 1},
    'ul': {'gap': 1, 'loose': False}, 'ol': {'gap': 1, 'loose': False},
    'li': {'ind': 0, 'pad': 1, 'blankfirst': False, 'trailsp': 0},
    'tb': {'gap': 1, 'lead': True, 'trailp': True, 'padl': 1, 'padr': 1, 'dash': 3, 'lcolon': False},
    'html': {'gap': 1, 'ind': 0},
    'defs': {'gap': 1},
    'def': {'ind': 0, 'sp': ' ', 'tsp': ' '},
    'link': {'s1': 0, 's2': 1, 's3': 0}, 'img': {'s1': 0, 's2': 1, 's3': 0},
    'br': {}, 't': {}, 'code': {}, 'em': {}, 'st': {}, 'del': {}, 'auto': {}, 'hi': {}, 'esc': {},
    'tr': {}, 'tc': {}, 'doc': {'lead': 0, 'gapws': ''},
}


def N(kind, children=None, **attrs):
    return [kind, attrs, children if children is not None else []]


# --------------------------------------------------------------------------------------------
# serialisation
# --------------------------------------------------------------------------------------------
BR = {'soft': '\n', 'soft1': ' \n', 'sp2': '  \n', 'sp3': '   \n', 'bs': '\\\n'}


def s_inl(nodes):
    out = []
    prev = None
    for n in nodes:
        s = s_one(n)
        if out and not n[1].get('glue') and n[0] != 'br' and prev != 'br':
            out.append(' ')
        out.append(s)
        prev = n[0]
    return ''.join(out)


def s_one(n):
    k, a, c = n
    if k in ('t', 'esc', 'auto', 'hi'):
        return a['s']
    if k == 'br':
        return BR[a['k']]
    if k in ('em', 'st', 'del'):
        return a['d'] + s_inl(c) + a['d']
    if k == 'code':
        return '`' * a['n'] + a['s'] + '`' * a['n']
    if k in ('link', 'img'):
        pre = '![' if k == 'img' else '['
        form = a['form']
        if form == 'inline':
            d = '<' + a['dest'] + '>' if a['angle'] else a['dest']
            t = ''
            if a.get('title') is not None:
                td = a['td']
                t = ' ' * max(1, a.get('s2', 1)) + td + a['title'] + (')' if td == '(' else td)
            return pre + s_inl(c) + '](' + ' ' * a.get('s1', 0) + d + t + ' ' * a.get('s3', 0) + ')'
        if form == 'full':
            return pre + s_inl(c) + '][' + a['label'] + ']'
        if form == 'collapsed':
            return pre + s_inl(c) + '][]'
        return pre + s_inl(c) + ']'
    raise ValueError(k)


def _ind(a, i):
    ind = a.get('ind', (0,))
    return ind[i % len(ind)] if ind else 0


def s_blocks(nodes, gapws='', top=False):
    out = []
    for i, b in enumerate(nodes):
        for _ in range(b[1].get('gap', 0) if i or top else 0):
            out.append((b[1].get('gapws', gapws), 0))
        out.extend(s_block(b))
    return out


def s_block(b):
    k, a, c = b
    if k == 'p':
        lines = s_inl(c).split('\n')
        return [(' ' * _ind(a, i) + l, a.get('lazy', 0) if i else 0) for i, l in enumerate(lines)]
    if k == 'h':
        s = ' ' * a.get('ind', 0) + '#' * a['level']
        t = s_inl(c)
        if t:
            s += ' ' * a.get('sp', 1) + t
        if a.get('close'):
            s += ' ' * a.get('spc', 1) + a['close']
        return [(s + ' ' * a.get('trail', 0), 0)]
    if k == 'sh':
        lines = s_inl(c).split('\n')
        out = [(' ' * _ind(a, i) + l, a.get('lazy', 0) if i else 0) for i, l in enumerate(lines)]
        out.append((' ' * a.get('uind', 0) + a['ch'] * a.get('n', 3) + ' ' * a.get('trail', 0), 0))
        return out
    if k == 'hr':
        return [(a['line'], 0)]
    if k == 'fc':
        ind = ' ' * a.get('ind', 0)
        fence = a['ch'] * a.get('n', 3)
        out = [(ind + fence + a.get('info', ''), 0)]
        for l in a['lines']:
            if a.get('short') and l.strip():
                out.append((l, 0))          # content indented less than the fence (non-canonical)
            else:
                out.append(((ind + l) if l.strip() or a.get('wsl') else '', 0))
        if not a.get('unclosed'):
            cind = a.get('cind')
            out.append(((ind if cind is None else ' ' * cind) + fence + a['ch'] * a.get('cn', 0)
                        + ' ' * a.get('ctrail', 0), 0))
        return out
    if k == 'ic':
        return [(('    ' + l) if l.strip() or a.get('wsl') else '', 0) for l in a['lines']]
    if k == 'q':
        pre = ' ' * a.get('ind', 0) + '> '
        out = []
        for l, lz in s_blocks(c):
            if lz > 0:
                out.append((l, lz - 1))
            elif l.strip() == '' and not l:
                out.append((' ' * a.get('ind', 0) + a.get('bl', '> '), 0))
            elif a.get('nosp') and not l.startswith(' '):
                out.append((pre[:-1] + l, 0))       # '>' without the optional blank
            else:
                out.append((pre + l, 0))
        return out or [(' ' * a.get('ind', 0) + a.get('bl', '> '), 0)]
    if k in ('ul', 'ol'):
        out = []
        for i, it in enumerate(c):
            if i and a.get('loose'):
                out.append(('', 0))
            out.extend(s_item(it))
        return out
    if k == 'tb':
        return [(l, 0) for l in s_table(b)]
    if k == 'html':
        return [(' ' * a.get('ind', 0) + l if i == 0 else l, 0) for i, l in enumerate(a['lines'])]
    if k == 'defs':
        out = []
        for d in c:
            da = d[1]
            dest = '<' + da['dest'] + '>' if da['angle'] else da['dest']
            s = ' ' * da.get('ind', 0) + '[' + da['label'] + ']:' + da.get('sp', ' ') + dest
            if da.get('title') is not None:
                td = da['td']
                s += da.get('tsp', ' ') + td + da['title'] + (')' if td == '(' else td)
            out.extend((l, 0) for l in s.split('\n'))
        return out
    raise ValueError(k)


def s_item(it):
    a, c = it[1], it[2]
    lead = ' ' * a.get('ind', 0) + a['leader']
    first = lead + ' ' * a.get('pad', 1)
    rest = ' ' * len(first)
    lines = s_blocks(c)
    if a.get('blankfirst') and lines:
        lines = [('', 0)] + lines
        rest = ' ' * (len(lead) + 1)    # an item that starts with a blank line: content column = marker + 1
    if not lines:
        return [(lead + ' ' * a.get('trailsp', 0), 0)]
    out = []
    for i, (l, lz) in enumerate(lines):
        if i and lz > 0:
            out.append((l, lz - 1))
        elif i == 0:
            if not (c and c[0][0] == 'ic'):
                l = l.lstrip(' ')       # own indentation would add to the marker padding
            out.append(((first + l) if l.strip() else lead + ' ' * a.get('trailsp', 0), 0))
        else:
            out.append(((rest + l) if l else '', 0))
    return out


def _center(s, w):
    return '{0: ^{w}}'.format(s, w=w)


def s_table(b):
    a, rows = b[1], b[2]
    cells = [[s_inl(tc[2]) for tc in tr[2]] for tr in rows]
    if not cells:
        return []
    al = a['align']
    ncol = max(len(al), max(len(r) for r in cells))
    if a.get('nf'):     # the renderer's normal form
        w = [3] * ncol
        for r in cells:
            for i, t in enumerate(r):
                w[i] = max(w[i], len(t))
        out = []
        for ri, r in enumerate(cells):
            padded = []
            for i in range(ncol):
                t = r[i] if i < len(r) else ''
                x = al[i] if i < len(al) else None
                padded.append(t.ljust(w[i]) if x is None else _center(t, w[i]) if x == 0 else t.rjust(w[i]))
            out.append('| ' + ' | '.join(padded) + ' |')
            if ri == 0:
                seps = []
                for i in range(ncol):
                    x = al[i] if i < len(al) else None
                    seps.append((':' if x == 0 else '-') + '-' * (w[i] - 2) + (':' if x in (0, 1) else '-'))
                out.append('| ' + ' | '.join(seps) + ' |')
        return out
    lead = '|' if a.get('lead', True) else ''
    trail = '|' if a.get('trailp', True) or ncol == 1 and not a.get('lead', True) else ''
    pl, pr = ' ' * a.get('padl', 1), ' ' * a.get('padr', 1)
    out = []
    for ri, r in enumerate(cells):
        line = lead + '|'.join(pl + (t or ' ') + pr for t in r) + trail
        if '|' not in line:
            line = '|' + line
        out.append(line.lstrip(' '))
        if ri == 0:
            seps = []
            for i in range(len(al)):
                x = al[i]
                d = '-' * a.get('dash', 3)
                seps.append((':' if x == 0 or (x is None and a.get('lcolon')) else '') + d
                            + (':' if x in (0, 1) else ''))
            line = lead + '|'.join(pl + s + pr for s in seps) + trail
            if '|' not in line:
                line = '|' + line
            out.append(line.lstrip(' '))
    return out


def render(doc):
    """tree -> text. doc = ['doc', attrs, blocks]"""
    lines = [''] * doc[1].get('lead', 0) + [l for l, _ in s_blocks(doc[2], doc[1].get('gapws', ''), True)]
    return ''.join(l + '\n' for l in lines)


# --------------------------------------------------------------------------------------------
# generation
# --------------------------------------------------------------------------------------------
class Gen:
    def __init__(self, seed, mode='free', size=None, delicate=None):
        mode = {'normal_form': 'normal', 'canonical': 'normal'}.get(mode, mode)
        self.r = random.Random('%s:%s' % (mode, seed))
        self.mode = mode
        self.free = mode == 'free'
        self.normal = mode == 'normal'
        self.reflow = mode in ('reflow', 'reflowfree')
        self.spell = mode in ('free', 'reflowfree')      # non-canonical spellings allowed
        self.size = size
        # delicate constructs (known-delicate classes, inside the quantifier): only in 'free'
        self.delicate = (self.r.random() < 0.03) if delicate is None else delicate
        self.delicate = self.delicate and self.free
        self.used = []
        self._in_del = 0
        self._inq = 0

    # ---- helpers
    def ch(self, seq):
        return seq[self.r.randrange(len(seq))]

    def p(self, x):
        return self.r.random() < x

    def sp(self, canon, alts):
        """spelling attribute: canonical value unless non-canonical spellings are on"""
        return self.ch(alts) if self.spell and self.p(0.5) else canon

    def word(self):
        if self.reflow:
            return self.ch(RWORDS) + self.ch(RSUF)
        if self.p(0.12):
            return self.ch(ODD if self.free else SAFE_ODD)
        return self.ch(WORDS)

    # ---- inline
    def inl(self, depth=0, n=None, nolink=False, nobreak=False, cell=False):
        r = self.r
        n = n or r.choice([1, 1, 2, 3, 4, 6, 9] if not self.reflow else [1, 3, 6, 10, 16, 25, 40])
        out = []
        for i in range(n):
            x = r.random()
            if x < 0.55 or depth >= 3:
                node = N('t', s=self.word())
            elif x < 0.62:
                node = N('em', self.inl(depth + 1, r.choice([1, 1, 2, 3]), nolink, nobreak, cell),
                         d=self.ch('*_'))
            elif x < 0.68:
                node = N('st', self.inl(depth + 1, r.choice([1, 1, 2, 3]), nolink, nobreak, cell),
                         d=self.ch(['**', '__']))
            elif x < 0.71:
                if self.reflow or self._in_del:
                    node = N('t', s=self.word())
                else:
                    self._in_del += 1
                    node = N('del', self.inl(depth + 1, r.choice([1, 2]), nolink, nobreak, cell), d='~~')
                    self._in_del -= 1
            elif x < 0.78:
                node = self.code(cell)
            elif x < 0.88 and not nolink:
                node = self.link(depth, nobreak, cell, img=False)
            elif x < 0.92:
                node = self.link(depth, nobreak, cell, img=True, nolink=nolink)
            elif x < 0.94:
                node = N('auto', s=self.ch(AUTOS))
            elif x < 0.96 and not self.reflow and not (self.normal and (not out or out[-1][0] == 'br')):
                node = N('hi', s=self.ch(HTMLS))
            elif x < 0.98 and not self.reflow:
                node = N('esc', s=self.ch(ESC))
                if cell and '|' in node[1]['s']:
                    node = N('t', s='a')
            else:
                node = N('t', s=self.word())
            if cell and node[0] == 't':
                node[1]['s'] = node[1]['s'].replace('|', '/')
            if out and not self.reflow and self.p(0.06) and node[0] in ('t', 'em', 'st', 'code') \
                    and out[-1][0] in ('t', 'em', 'st', 'code') and not (node[0] == out[-1][0] == 'code'):
                node[1]['glue'] = True
            out.append(node)
            if nobreak in (False, 'setext') and i < n - 1 and self.p(0.22 if not self.reflow else 0.1):
                kinds = ['soft'] * 5 + ['sp2', 'bs', 'sp3'] + (['soft1'] if self.spell else [])
                if self.reflow:
                    kinds = ['soft'] * 3 + ['sp2', 'bs']
                if nobreak == 'setext':     # setext text lines are stripped: blanks are not kept
                    kinds = ['soft', 'soft', 'bs']
                out.append(N('br', k=self.ch(kinds)))
        return out

    def code(self, cell=False):
        r = self.r
        n = r.choice([1, 1, 1, 2, 2, 3])
        if self.reflow:
            if n == 3 and self.p(0.95):
                n = 2       # a 3-backtick span moved to a line start reads as a fence: keep rare
            s = ' '.join(self.ch(RWORDS) for _ in range(r.choice([1, 1, 2, 3, 5])))
            if n > 1 and self.p(0.5):
                s = s + '`' * (n - 1) + 'q'
            return N('code', n=n, s=s)
        body = self.ch(['x', 'a b', 'f(x)', '*a*', 'a  b', '<b>', 'x\\', '[l](u)', 'é', 'a_b_c'])
        if n > 1 and self.p(0.6):
            body = body + '`' * (n - 1) + 'z'
        if self.p(0.2):
            body = ' ' + body + ' '
        elif self.spell and self.p(0.1):
            body = ' ' + body
        elif self.spell and self.p(0.05) and not cell:
            body = body.replace(' ', '\n', 1)
        if body.startswith('`') or body.endswith('`'):
            body = ' ' + body + ' '
        return N('code', n=n, s=body)

    def link(self, depth, nobreak, cell, img, nolink=False):
        r = self.r
        kind = 'img' if img else 'link'
        nwords = r.choice([1, 1, 2, 3])
        if self.reflow and img and self.p(0.95):
            nwords = 1      # (HtmlRenderer drops line breaks inside alt texts: keep that class rare)
        text = self.inl(depth + 1 if not (self.reflow and img and nwords == 1) else 3, nwords,
                        nolink=True if not img else nolink, nobreak=nobreak, cell=cell)
        x = r.random()
        if x < 0.55:
            angle = self.p(0.3)
            dest = self.ch(ADESTS if angle else DESTS)
            if self.reflow:
                dest = dest.replace('"', 'q').replace('#', '/')
            title = td = None
            if self.p(0.45) and (dest or angle):
                td = self.ch('"\'(')
                title = self.ch(TITLES)
                if self.reflow:
                    title = ' '.join(self.ch(RWORDS) for _ in range(r.choice([1, 2, 3, 6])))
                if td == '"':
                    title = title.replace('"', "'")
                elif td == "'":
                    title = title.replace("'", '"')
                else:
                    title = title.replace('(', '[').replace(')', ']')
                if title == '' and not self.spell:
                    title = 't'
            a = dict(form='inline', dest=dest, angle=angle, title=title, td=td)
            if self.spell:
                a.update(s1=r.choice([0, 0, 0, 1, 2]), s2=r.choice([1, 1, 1, 2, 3]), s3=r.choice([0, 0, 0, 1]))
            return [kind, a, text]
        label = self.ch(LABELS)
        if self.reflow:
            label = self.ch(['foo', 'Foo Bar', 'bar baz', 'ref', 'one two three four'])
        if self.p(0.85):
            self.used.append(label)
        var = label
        if self.p(0.3):
            var = label.upper() if self.p(0.5) else label.replace(' ', '  ') if self.spell else label.lower()
        if x < 0.75:
            return [kind, dict(form='full', label=var), text]
        form = 'collapsed' if x < 0.87 else 'shortcut'
        return [kind, dict(form=form), [N('t', s=var)]]

    # ---- blocks
    def doc(self):
        r = self.r
        size = self.size or r.choice([1, 1, 2, 2, 3, 4, 6])
        blocks = self.blocks(0, size)
        labels = []
        for l in self.used:
            if l not in labels:
                labels.append(l)
        if labels or self.p(0.05):
            if not labels:
                labels = [self.ch(LABELS)]
            if self.p(0.1):
                labels.append(labels[0])        # duplicate definition: first wins
            d = self.defs(labels)
            pos = r.choice([len(blocks)] * 3 + list(range(len(blocks) + 1)))
            target = blocks
            if self.p(0.25):                    # put the definitions inside a container
                conts = [b for b in blocks if b[0] == 'q'] + \
                        [it for b in blocks if b[0] in ('ul', 'ol') for it in b[2]]
                if conts:
                    target = self.ch(conts)[2]
                    pos = len(target)
                    d[1]['gap'] = 1
            if pos == 0 and target is blocks:
                d[1]['gap'] = 0
                if blocks:
                    blocks[0][1]['gap'] = max(1, blocks[0][1].get('gap', 0))
            target.insert(pos, d)
            if pos + 1 < len(target):
                target[pos + 1][1]['gap'] = max(1, target[pos + 1][1].get('gap', 0))
        a = {}
        if self.spell and self.p(0.05):
            a['lead'] = r.choice([1, 2])
        if self.delicate and self.p(0.3):
            a['gapws'] = ' ' * r.choice([1, 2, 4, 5, 7])
        a['mode'] = self.mode
        return ['doc', a, blocks]

    def defs(self, labels):
        r = self.r
        out = []
        for l in labels:
            angle = self.p(0.25)
            dest = self.ch([d for d in (ADESTS if angle else DESTS) if d or angle])
            title = td = None
            if self.p(0.5):
                td = self.ch('"\'(')
                title = self.ch([t for t in TITLES if t])
                if self.reflow:
                    title = ' '.join(self.ch(RWORDS) for _ in range(r.choice([1, 2, 3, 8])))
                if td == '"':
                    title = title.replace('"', "'")
                elif td == "'":
                    title = title.replace("'", '"')
                else:
                    title = title.replace('(', '[').replace(')', ']')
            if self.reflow:
                dest = dest.replace('"', 'q').replace('#', '/')
            a = dict(label=l, dest=dest, angle=angle, title=title, td=td)
            if self.spell:
                a.update(ind=r.choice([0, 0, 1, 3]), sp=r.choice([' ', ' ', '  ', '\n', '\n  ']),
                         tsp=r.choice([' ', ' ', '  ', '\n', '\n   ']))
                if self.p(0.2):
                    a['label'] = l.upper()
            out.append(['def', a, []])
        return N('defs', out, gap=1)

    def blocks(self, depth, n, parent=None):
        r = self.r
        out = []
        kinds = ['p'] * 30 + ['h'] * 8 + ['sh'] * 5 + ['hr'] * 5 + ['fc'] * 8 + ['ic'] * 6 + \
                ['tb'] * 5 + ['html'] * 5
        if depth < 4:
            kinds += ['q'] * 9 + ['ul'] * 9 + ['ol'] * 6
        if self.reflow:
            kinds = ['p'] * 40 + ['h'] * 6 + ['sh'] * 5 + ['hr'] * 2 + ['fc'] * 5 + ['ic'] * 3 + \
                    ['tb'] * 4 + ['html'] * 3
            if depth < 4:
                kinds += ['q'] * 14 + ['ul'] * 12 + ['ol'] * 8
        prev = None
        for i in range(n):
            k = self.ch(kinds)
            if k == 'ic' and prev in ('ul', 'ol') and (not self.spell or self.reflow):
                k = 'p'             # an indented block right after a list belongs to its last item
            b = getattr(self, 'b_' + k)(depth)
            first = i == 0
            gap = 0 if first else 1
            if not first:
                if self.spell and self.p(0.25):
                    gap = r.choice([0, 0, 2, 3])
                elif self.normal and self.p(0.2):
                    gap = r.choice([2, 3]) if self.p(0.5 if prev not in ('ul', 'ol') else 0.1) else \
                        (0 if prev in ('h', 'hr', 'fc') and k in ('p', 'h', 'fc', 'hr', 'q', 'tb') else 1)
                # never put an indented code block (or a container starting with one) directly
                # under a paragraph-ended block: that would be a continuation line indented >= 4
                if k == 'ic' or prev == 'html' and not self.spell or \
                        self.reflow and prev in ('html', 'q', 'ul', 'ol'):
                    gap = max(gap, 1)
                if gap == 0 and (self._starts_indented(b) or not may_follow_directly(b)
                                 or k == 'q' and prev == 'q'):
                    gap = 1         # (two quotes without a blank line between them are one quote)
            b[1]['gap'] = gap
            if first and parent == 'li' or (self.normal or self.reflow) and prev in ('ul', 'ol'):
                self._unindent_first(b)     # (an indented block after a list would join its last item)
            out.append(b)
            prev = k
        return out

    @staticmethod
    def _starts_indented(b):
        lines = s_block(b)
        return bool(lines) and lines[0][0].startswith('    ')

    def _unindent_first(self, b):
        unindent_first(b, self.spell)

    def inds(self):
        if self.spell and self.p(0.4):
            return tuple(self.r.choice([0, 0, 1, 2, 3]) for _ in range(3))
        return (0,)

    def lazy(self, depth):
        # (not in the reflow modes: mistletoe ends a quote at a lazy line that follows a line
        # indented >= 4, so the structure of the document would no longer be the generated one)
        return self.r.randint(1, depth) if self.free and depth and self.p(0.3) else 0

    def b_p(self, depth):
        b = N('p', self.inl(), ind=self.inds(), lazy=self.lazy(depth))
        if b[1]['lazy']:
            # a lazy line must not look like a block start: it would close the containers while
            # their later lines stay indented (-> continuation lines indented >= 4, excluded)
            kids = b[2]
            for i in range(1, len(kids)):
                if kids[i - 1][0] == 'br' and (kids[i][0] == 'hi' or kids[i][0] == 't' and kids[i][1]['s'] in ODD):
                    kids[i] = N('t', s=self.ch(WORDS))
        return b

    def b_h(self, depth):
        r = self.r
        c = self.inl(n=r.choice([0, 1, 1, 2, 3, 5]) or None, nobreak=True) if self.p(0.93) else []
        a = dict(level=r.randint(1, 6), close='')
        if c and self.p(0.3):
            a['close'] = '#' * r.choice([1, 2, 3, 7])
        if self.spell:
            a.update(ind=r.choice([0, 0, 1, 2, 3]), sp=r.choice([1, 1, 2, 3]), spc=r.choice([1, 1, 2]),
                     trail=r.choice([0, 0, 0, 2]))
        return ['h', a, c]

    def b_sh(self, depth):
        r = self.r
        c = self.inl(n=r.choice([1, 2, 3, 5] if not self.reflow else [2, 5, 9, 14]),
                     nobreak='setext' if self.normal else False)
        a = dict(ch=self.ch('=-'), n=r.choice([1, 2, 3, 3, 5, 9]), ind=self.inds(), lazy=0)
        if self.spell:
            a.update(uind=r.choice([0, 0, 1, 3]), trail=r.choice([0, 0, 1, 3]))
        elif self.normal and not self._inq:
            a.update(uind=r.choice([0, 0, 0, 1, 3]))
        return ['sh', a, c]

    def b_hr(self, depth):
        r = self.r
        c = self.ch('*-_')
        line = self.ch([c * 3, c * 3, c * 5, ' '.join(c * 3), '  '.join(c * 4), c + ' ' + c * 2])
        if self.spell or self.normal:
            line = ' ' * r.choice([0, 0, 0, 1, 2, 3]) + line + ' ' * r.choice([0, 0, 0, 1, 2])
        return N('hr', line=line)

    def codelines(self):
        r = self.r
        if self.reflow:
            return ['k%d %s' % (i, ' '.join(self.ch(RWORDS) for _ in range(r.choice([0, 1, 4, 12, 20]))))
                    for i in range(r.choice([1, 1, 2, 4]))]
        n = r.choice([1, 1, 2, 3, 5])
        lines = [self.ch(CODELINES) for _ in range(n)]
        if n > 2 and self.p(0.4):
            lines[r.randrange(1, n - 1)] = ''
        return lines

    def b_fc(self, depth):
        r = self.r
        ch = self.ch('`~')
        lines = self.codelines()
        lines = [l.rstrip(' ') if not l.strip() else l for l in lines]
        n = r.choice([3, 3, 3, 4, 6])
        if any(l.strip().startswith(ch * 3) for l in lines):
            n = 6 if ch == '~' else n
            lines = [l for l in lines if not l.strip().startswith(ch * 3)] or ['x']
        info = self.ch(INFOS) if not self.reflow else self.ch(['', 'py', ' python'])
        if ch == '`':
            info = info.replace('`', '')
        a = dict(ch=ch, n=n, info=info, lines=lines)
        if self.spell or self.normal:
            a['ind'] = r.choice([0, 0, 0, 1, 2, 3])
        if self.spell:
            a.update(cn=r.choice([0, 0, 0, 1, 3]), cind=r.choice([None, None, 0, 1, 3]),
                     ctrail=r.choice([0, 0, 2]))
            if a['ind'] and self.p(0.2):
                a['short'] = True
        if self.delicate:
            x = r.random()
            if x < 0.35:
                a['lines'] = []
            elif x < 0.6:
                a['lines'] = lines + ['  ', 'y']
                a['wsl'] = True
        return ['fc', a, []]

    def b_ic(self, depth):
        lines = [l for l in self.codelines()]
        while lines and not lines[0].strip():
            lines.pop(0)
        while lines and not lines[-1].strip():
            lines.pop()
        lines = lines or ['x']
        a = dict(lines=lines)
        if self.delicate and self.p(0.4):
            a['lines'] = lines + ['  ', 'y']
            a['wsl'] = True
        return ['ic', a, []]

    def nchildren(self, depth):
        return self.r.choice([1, 1, 1, 2, 2, 3]) if depth < 3 else self.r.choice([1, 1, 2])

    def b_q(self, depth):
        r = self.r
        a = {}
        if self.spell:
            a.update(ind=r.choice([0, 0, 1, 3]), nosp=self.p(0.3), bl=self.ch(['> ', '>', '>  ']))
        self._inq += 1
        c = self.blocks(depth + 1, self.nchildren(depth), 'q')
        self._inq -= 1
        if self.spell and self.p(0.04):
            c = []
        return ['q', a, c]

    def b_list(self, depth, ordered):
        r = self.r
        n = r.choice([1, 2, 2, 3, 4])
        loose = self.p(0.35)
        if ordered:
            start = r.choice([1, 1, 1, 0, 2, 7, 10, 99, 123456789])
            delim = self.ch('.)')
            zero = self.p(0.08) and start < 1000
        else:
            marker = self.ch('-+*')
        items = []
        for i in range(n):
            leader = (('0' if zero else '') + str(start + i) + delim) if ordered else marker
            a = dict(leader=leader, pad=1, ind=0)
            if self.spell or self.normal:
                a['pad'] = r.choice([1, 1, 1, 2, 3, 4])
                a['ind'] = r.choice([0, 0, 0, 1, 2, 3])
            if len(leader) + a['pad'] + a['ind'] > 12:
                a['ind'] = 0
            c = self.blocks(depth + 1, self.nchildren(depth), 'li')
            if self.p(0.015) and (self.free or self.normal and not loose and i < n - 1):
                c = []                                   # empty item
                if self.normal:
                    a['pad'] = 1
                    a['trailsp'] = 1
                elif self.spell:
                    a['trailsp'] = r.choice([0, 0, 1, 2])
            elif self.spell and self.p(0.05) and c and c[0][0] in ('p', 'fc', 'h'):
                a['blankfirst'] = True
            if c and c[0][0] == 'ic':
                a['pad'] = 1        # '-' + 5.. blanks: the content column is marker + 1
            items.append(['li', a, c])
        fix_item_indents(items)
        la = dict(loose=loose)
        if self.delicate and self.p(0.5) and n > 1:
            k = r.randrange(n - 1) if self.p(0.7) else n - 1
            items[k][2] = []
            items[k][1]['trailsp'] = 0
            la['loose'] = True
        return ['ol' if ordered else 'ul', la, items]

    def b_ul(self, depth):
        return self.b_list(depth, False)

    def b_ol(self, depth):
        return self.b_list(depth, True)

    def b_tb(self, depth):
        r = self.r
        ncol = r.choice([1, 2, 2, 3, 4])
        nrow = r.choice([0, 1, 1, 2, 3])
        align = [r.choice([None, None, 0, 1]) for _ in range(ncol)]
        rows = []
        for ri in range(nrow + 1):
            nc = ncol
            if ri and self.spell and self.p(0.12):
                nc = max(1, ncol + r.choice([-1, -1, -1, -1, -1, 1]))
            cells = []
            for _ in range(nc):
                c = [] if ri and self.p(0.1) else \
                    self.inl(n=r.choice([1, 1, 2, 3] if not self.reflow else [1, 2, 5, 9]), nobreak=True, cell=True)
                cells.append(N('tc', c))
            rows.append(N('tr', cells))
        a = dict(align=align, nf=not self.spell)
        if self.spell:
            a.update(lead=self.p(0.7), trailp=self.p(0.7), padl=r.choice([0, 1, 1, 2]),
                     padr=r.choice([0, 1, 1, 2]), dash=r.choice([1, 2, 3, 3, 5]), lcolon=self.p(0.3),
                     nf=self.p(0.3))
        if self.delicate and self.p(0.5):
            rows[-1][2][0][2].append(N('t', s='a\\|b'))
        return ['tb', a, rows]

    def b_html(self, depth):
        lines = list(self.ch(HTMLBLOCKS if not self.reflow else RHTMLBLOCKS))
        a = dict(lines=lines)
        if self.spell or self.normal:
            a['ind'] = self.r.choice([0, 0, 0, 1, 3])
        return ['html', a, []]


def may_follow_directly(b):
    """A list that cannot interrupt a paragraph (ordered and not starting at 1, or first item
    starting with a blank line) must not follow another block without a blank line: its item
    continuation lines would become paragraph continuation lines indented >= 4 (excluded class)."""
    if b[0] in ('ul', 'ol') and b[2]:
        it = b[2][0]
        return it[1]['leader'] in ('-', '+', '*', '1.', '1)') and bool(it[2]) and \
            not it[1].get('blankfirst') and bool(s_blocks(it[2])[0][0].strip())
    return True


def unindent_first(b, spell):
    """first child of a list item: its own indentation would add to the marker padding"""
    a = b[1]
    if b[0] in ('p', 'sh'):
        a['ind'] = (0,) + tuple(a.get('ind', (0,))[1:])
        if b[2] and b[2][0][0] == 't' and b[2][0][1]['s'] in ('---', '***', '-', '*', '_', '+', '==='):
            b[2][0][1]['s'] = 'a'       # '- ---' would be a thematic break, not a list item
    elif b[0] in ('h', 'fc', 'html', 'q'):
        a['ind'] = 0
        if b[0] == 'fc':
            a['cind'] = None if not spell else a.get('cind')
    elif b[0] == 'hr':
        a['line'] = a['line'].lstrip(' ')
        # '* ***' / '- ---' / '- - ---' would be a thematic break, not a list item
        a['line'] = a['line'].replace('*', '_').replace('-', '_')
    elif b[0] in ('ul', 'ol') and b[2]:
        b[2][0][1]['ind'] = 0
        fix_item_indents(b[2])


def gen(seed, mode='free', size=None, delicate=None):
    """-> (tree, text)"""
    g = Gen(seed, mode, size, delicate)
    t = g.doc()
    return t, render(t)


# --------------------------------------------------------------------------------------------
# shrinking (structural delta debugging; stays inside the generated domain)
# --------------------------------------------------------------------------------------------
BLOCK_CONT = ('q', 'li', 'doc')
INL_CONT = ('em', 'st', 'del', 'link', 'img')


def _paths(node, path=()):
    yield path, node
    for i, c in enumerate(node[2]):
        yield from _paths(c, path + (i,))


def _get(tree, path):
    n = tree
    for i in path:
        n = n[2][i]
    return n


def _candidates(tree):
    """single-step reductions, biggest first (pre-order: parents before children)"""
    for path, node in _paths(tree):
        if not path:
            continue
        k = node[0]
        parent = _get(tree, path[:-1])

        def edit(fn):
            t = copy.deepcopy(tree)
            fn(_get(t, path[:-1]), path[-1])
            return t
        # 1. delete
        if not (parent[0] in ('ul', 'ol', 'tr', 'defs', 'p', 'sh', 'em', 'st', 'del', 'link', 'img')
                and len(parent[2]) == 1) and not (parent[0] == 'tb' and path[-1] == 0) and \
                not (k == 'br' and path[-1] in (0, len(parent[2]) - 1)):
            yield edit(lambda p, i: p[2].pop(i))
        # 2. hoist children
        if k == 'q' or k in INL_CONT and k not in ('link', 'img') or \
                k in ('link', 'img') and node[1]['form'] in ('inline', 'full'):
            yield edit(lambda p, i: p[2].__setitem__(slice(i, i + 1), p[2][i][2]))
        if k in ('ul', 'ol'):
            def hoist_list(p, i):
                kids = [b for it in p[2][i][2] for b in it[2]]
                p[2][i:i + 1] = kids
            yield edit(hoist_list)
        # 3. canonical spelling, one attribute at a time
        for key, val in CANON.get(k, {}).items():
            if key in node[1] and node[1][key] != val:
                if key == 'gap' and path[-1] == 0:
                    val = 0
                    if node[1][key] == 0:
                        continue
                yield edit(lambda p, i, key=key, val=val: p[2][i][1].__setitem__(key, val))
        # 4. content simplification
        if k == 't' and node[1]['s'] not in ('a', 'b'):
            yield edit(lambda p, i: p[2][i][1].__setitem__('s', 'a'))
        if k in ('fc', 'ic') and len(node[1]['lines']) > 1:
            ls = node[1]['lines']
            for j in range(len(ls)):
                rest = ls[:j] + ls[j + 1:]
                if rest[0].strip() and rest[-1].strip():
                    yield edit(lambda p, i, j=j: p[2][i][1]['lines'].pop(j))
        if k in ('link', 'img') and node[1].get('title') is not None:
            yield edit(lambda p, i: p[2][i][1].__setitem__('title', None))
        if k == 'def' and node[1].get('title') is not None:
            yield edit(lambda p, i: p[2][i][1].__setitem__('title', None))
        if k == 'ol' and [it[1]['leader'] for it in node[2]] != \
                ['%d%s' % (j + 1, node[2][0][1]['leader'][-1]) for j in range(len(node[2]))]:
            def renumber(p, i):
                for j, it in enumerate(p[2][i][2]):
                    it[1]['leader'] = '%d%s' % (j + 1, it[1]['leader'][-1])
            yield edit(renumber)
    for key, val in CANON['doc'].items():
        if key in tree[1] and tree[1][key] != val:
            t = copy.deepcopy(tree)
            t[1][key] = val
            yield t


def enforce_domain(tree, normal=False):
    """Repair an edited tree so that it stays inside the generated domain; None if it cannot be."""
    ok = [True]
    reflow = tree[1].get('mode', '').startswith('reflow')

    def fix(node, inq=False):
        kids = node[2]
        if node[0] in ('p', 'sh', 'em', 'st', 'del', 'link', 'img', 'tc', 'h'):
            while kids and kids[0][0] == 'br':
                kids.pop(0)
            while kids and kids[-1][0] == 'br':
                kids.pop()
            for i in range(len(kids) - 1, 0, -1):
                if kids[i][0] == 'br' and kids[i - 1][0] == 'br':
                    kids.pop(i)
            if not kids and node[0] not in ('tc', 'h'):
                ok[0] = False
        if node[0] == 'sh' and normal and inq:
            node[1]['uind'] = 0
        if node[0] in ('ul', 'ol'):
            fix_item_indents(kids)
        if node[0] == 'li' and kids and kids[0][0] == 'ic':
            node[1]['pad'] = 1
        if node[0] in ('doc', 'q', 'li'):
            for i, b in enumerate(kids):
                if i and b[1].get('gap', 0) == 0 and reflow and kids[i - 1][0] in ('html', 'q', 'ul', 'ol'):
                    b[1]['gap'] = 1
                if i and reflow and kids[i - 1][0] in ('ul', 'ol'):
                    if b[0] == 'ic':
                        ok[0] = False
                    unindent_first(b, False)
                if i and b[1].get('gap', 0) == 0:
                    ls = s_block(b)
                    if normal or ls and ls[0][0].startswith('    ') or not may_follow_directly(b) \
                            or b[0] == 'q' and kids[i - 1][0] == 'q':
                        b[1]['gap'] = 1
                if normal and i and kids[i - 1][0] in ('ul', 'ol'):
                    if b[0] == 'ic':
                        ok[0] = False
                    unindent_first(b, False)    # an indented block after a list joins its last item
            if node[0] == 'li' and kids:
                unindent_first(kids[0], not normal)
            if node[0] == 'li' and not kids and normal:
                ok[0] = False
        for c in kids:
            fix(c, inq or node[0] == 'q')
    fix(tree)
    return tree if ok[0] else None


def fix_item_indents(items):
    """a sibling item must be indented less than the content column of the item before it"""
    for i in range(1, len(items)):
        pa = items[i - 1][1]
        width = pa.get('ind', 0) + len(pa['leader']) + \
            (pa.get('pad', 1) if items[i - 1][2] and not pa.get('blankfirst') else 1)
        if items[i][1].get('ind', 0) >= width:
            items[i][1]['ind'] = width - 1


def shrink(tree, fails, budget=600, normal=False):
    """Greedy structural minimisation: `fails(text) -> bool`. Returns (tree, text, evaluations)."""
    used = 0
    cur = tree
    cur_text = render(cur)
    progress = True
    while progress and used < budget:
        progress = False
        for cand in _candidates(cur):
            cand = enforce_domain(cand, normal)
            if cand is None:
                continue
            text = render(cand)
            if text == cur_text or len(text) > len(cur_text) + 2:
                continue
            used += 1
            if fails(text):
                cur, cur_text = cand, text
                progress = True
                break
            if used >= budget:
                break
    return cur, cur_text, used


# --------------------------------------------------------------------------------------------
# systematic family for C10: container stacks around one paragraph
# --------------------------------------------------------------------------------------------
STACK_PREFIXES = ['> ', '- ', '-   ', '1. ', '10. ']


def stack_doc(stack, words='aaa bbb ccc ddd'):
    """stack: tuple of indices into STACK_PREFIXES, outermost first -> single-paragraph document"""
    return ''.join(STACK_PREFIXES[i] for i in stack) + words + '\n'


def kinds_in(tree):
    out = {}
    for _, n in _paths(tree):
        out[n[0]] = out.get(n[0], 0) + 1
    return out


def depth_of(tree):
    def d(n):
        inner = max([d(c) for c in n[2]] or [0])
        return inner + (1 if n[0] in ('q', 'li') else 0)
    return d(tree)
