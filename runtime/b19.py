"""C19 (bounded tier): the table of contents lists exactly the qualifying headings, in order.

Runtime contract of
    with TocRenderer(depth=d, omit_title=o, filter_conds=fc) as r:
        r.render(Document(x)); toc = r.toc
for documents x *generated from an outline* (so the headings, their levels and their plain text
are known without asking mistletoe):

  toc-structure   `toc` is a List token whose nested structure equals the expected forest:
                  entries = the outline's headings, in document order, with level <= d, level 1
                  left out when o, none of the predicates in fc true of the plain text; an entry
                  is a child of the nearest preceding entry with a smaller level, otherwise a
                  top-level entry; each list item carries exactly the heading's plain text.
                  With no qualifying heading the TOC must be empty (a List without items, or an
                  empty / None value) — raising is a failure.
  toc-markup-title  the same for a small set of titles carrying inline markup (expected text: the
                  words only).  This sub-domain lies outside the quantifier of the property
                  ("plain-word titles") and is therefore kept under its own contract name.
"""

from runtime.common import use_repo, chunks, Timer

use_repo()

POOL = ['Alpha', 'Bravo', 'skip Charlie', 'Delta', 'Apex one', 'Echo', 'Foxtrot skip']
FILTERS = {
    'none': [],
    'skip': [lambda s: 'skip' in s],
    'startsA': [lambda s: s.startswith('A')],
}
FILTER_SRC = {'none': '[]', 'skip': "[lambda s: 'skip' in s]",
              'startsA': "[lambda s: s.startswith('A')]"}
CONTAINERS = ('top', 'quote', 'list', 'mixed')
SPELLINGS = ('atx', 'setext')
MARKUPS = [('*{}*', '{}'), ('**{}**', '{}'), ('`{}`', '{}'), ('[{}](u)', '{}'), ('~~{}~~', '{}'),
           ('{} *x* y', '{} x y'), ('_{}_ **b**', '{} b'),
           # raw inline HTML in a heading: the tags are not part of its plain text
           ('{} <kbd>x</kbd> y', '{} x y'),
           # plain text that looks like markup again (escaped in the heading): brackets, emphasis
           ('\\[{}\\]\\[b\\]', '[{}][b]'), ('\\[{}\\]', '[{}]'), ('\\*{}\\*', '*{}*')]


def outlines(n):
    """all level sequences of length n: first level is the minimum, steps down any amount, steps
    up by at most one, levels 1..6"""
    res = []

    def rec(seq):
        if len(seq) == n:
            res.append(tuple(seq))
            return
        for lvl in range(seq[0], min(6, seq[-1] + 1) + 1):
            rec(seq + [lvl])
    if n == 0:
        return [()]
    for s in range(1, 7):
        rec([s])
    return res


def heading_lines(level, title, spelling):
    if spelling == 'setext' and level <= 2:
        return [title, ('=' if level == 1 else '-') * 5]
    return ['#' * level + ' ' + title]


def build_doc(levels, titles, spelling, container, paras):
    """-> markdown source.  Blocks are separated by blank lines."""
    blocks = []
    for i, (lvl, t) in enumerate(zip(levels, titles)):
        blocks.append(('h', i, heading_lines(lvl, t, spelling)))
        if paras:
            blocks.append(('p', i, ['text %d of the section' % i]))
    if not blocks:
        blocks.append(('p', 0, ['just a paragraph']))
    if paras:
        blocks.insert(0, ('p', -1, ['intro paragraph']))
    lines = []
    if container == 'top':
        for _k, _i, ls in blocks:
            lines.extend(ls)
            lines.append('')
    elif container == 'quote':
        for _k, _i, ls in blocks:
            lines.extend('> ' + s for s in ls)
            lines.append('>')
    elif container == 'list':
        first = True
        for _k, _i, ls in blocks:
            for s in ls:
                lines.append(('- ' if first else '  ') + s)
                first = False
            lines.append('')
    elif container == 'mixed':
        for k, i, ls in blocks:
            if i % 2 == 1:
                lines.extend('> ' + s for s in ls)
            else:
                lines.extend(ls)
            lines.append('')
    return '\n'.join(lines) + '\n'


def expected_entries(levels, texts, depth, omit_title, preds):
    out = []
    for lvl, t in zip(levels, texts):
        if lvl > depth:
            continue
        if omit_title and lvl == 1:
            continue
        if any(p(t) for p in preds):
            continue
        out.append((lvl, t))
    return out


def forest(entries):
    root = []
    stack = [(0, root)]
    for lvl, text in entries:
        while stack[-1][0] >= lvl:
            stack.pop()
        node = [text, []]
        stack[-1][1].append(node)
        stack.append((lvl, node[1]))
    return root


def plain(tok):
    name = type(tok).__name__
    if name == 'RawText':
        return tok.content
    if name == 'LineBreak':
        return '\n'
    ch = tok.children
    if ch is None:
        return getattr(tok, 'content', '')
    return ''.join(plain(c) for c in ch)


def read_toc(tok):
    """observed forest, or a marker structure that cannot equal any expected forest"""
    if tok is None:
        return []
    if isinstance(tok, (list, tuple)) and len(tok) == 0:
        return []
    if type(tok).__name__ != 'List':
        return [['?not-a-List:' + type(tok).__name__, []]]
    items = []
    for it in tok.children:
        ch = list(it.children or ())
        if not ch or type(ch[0]).__name__ != 'Paragraph':
            items.append(['?item:' + ','.join(type(c).__name__ for c in ch), []])
            continue
        subs = []
        for c in ch[1:]:
            if type(c).__name__ == 'List':
                subs.extend(read_toc(c))
            else:
                subs.append(['?' + type(c).__name__, []])
        items.append([plain(ch[0]), subs])
    return items


def classify(entries, omit_title, err):
    if not entries:
        return 'toc-empty-indexerror' if err and err.startswith('IndexError') else 'toc-empty-other'
    if entries[0][0] > (2 if omit_title else 1):
        return 'toc-first-entry-indented'
    for (a, _), (b, _t) in zip(entries, entries[1:]):
        if b > a + 1:
            return 'toc-level-gap-after-filter'
    if err:
        return 'toc-raises-' + err.split(':')[0]
    return 'unclassified'


def _shape(forest):
    return [_shape(kids) for _t, kids in forest]


def _texts(forest):
    out = []
    for t, kids in forest:
        out.append(t)
        out.extend(_texts(kids))
    return out


def quoted_setext(levels, spelling, container):
    """indices of the headings written as setext headings inside a block quote"""
    if spelling != 'setext' or container not in ('quote', 'mixed'):
        return frozenset()
    return frozenset(i for i, lvl in enumerate(levels)
                     if lvl <= 2 and (container == 'quote' or i % 2 == 1))


EARLIER_DOC = '# Zed\n\n## Yak\n\n### Xu\n'


def evaluate(x, levels, texts, depth, omit_title, fname, qs=frozenset(), reuse=False):
    """-> None if the contract holds, else (observed, expected, class)"""
    from mistletoe import Document
    from mistletoe.contrib.toc_renderer import TocRenderer
    entries = expected_entries(levels, texts, depth, omit_title, FILTERS[fname])
    exp = forest(entries)
    err = None
    obs = None
    try:
        with TocRenderer(depth=depth, omit_title=omit_title,
                         filter_conds=list(FILTERS[fname])) as r:
            if reuse:
                # the same renderer instance rendered another document before: its table of contents is
                # about the document rendered last
                r.render(Document(EARLIER_DOC))
            r.render(Document(x))
            try:
                obs = read_toc(r.toc)
            except Exception as e:  # noqa
                err = '%s: %s' % (type(e).__name__, e)
    except Exception as e:  # noqa
        return ('render raises %s: %s' % (type(e).__name__, e), exp, 'render-raises')
    if err is None and obs == exp:
        return None
    cls = classify(entries, omit_title, err)
    if reuse and err is None and obs is not None and len(_texts(obs)) > len(_texts(exp)) and any(t in ('Zed', 'Yak', 'Xu') for t in _texts(obs)):
        return (obs, exp, 'toc-keeps-headings-of-earlier-document')
    if err is None and obs is not None and _shape(obs) == _shape(exp) and _texts(obs) != _texts(exp) \
            and any(c in t for t in _texts(exp) for c in '*_[]`~<&\\'):
        # same outline, different entry text, and the expected plain text looks like Markdown again:
        # the TOC is built by re-tokenizing the collected plain text as Markdown
        cls = 'toc-entry-text-reinterpreted-as-markdown'
    if qs:
        # label only: would the observation be explained if setext headings inside a block quote
        # were not headings (CommonMark says they are; Quote.read switches setext parsing off)?
        keep = [i for i in range(len(levels)) if i not in qs]
        alt = expected_entries([levels[i] for i in keep], [texts[i] for i in keep], depth,
                               omit_title, FILTERS[fname])
        if alt != entries:
            if err is None and obs == forest(alt):
                cls = 'setext-in-quote-not-parsed'
            else:
                cls = 'setext-in-quote-not-parsed+' + classify(alt, omit_title, err)
    return (('raises ' + err) if err else obs, exp, cls)


def _configs():
    for depth in range(1, 7):
        for omit in (True, False):
            for fname in ('none', 'skip', 'startsA'):
                yield depth, omit, fname


def _run(job):
    res = {'evaluations': 0, 'distinct_nontrivial': 0, 'contract_evaluations': 0,
           'failures': [], 'samples': []}
    for contract, x, levels, texts, qs in job:
        for depth, omit, fname in _configs():
            res['evaluations'] += 1
            res['contract_evaluations'] += 1
            r = evaluate(x, levels, texts, depth, omit, fname, qs, reuse=(contract == 'toc-reused-renderer'))
            entries = expected_entries(levels, texts, depth, omit, FILTERS[fname])
            if len(entries) >= 2 and len(set(e[0] for e in entries)) >= 2:
                res['distinct_nontrivial'] += 1
            if r is not None:
                obs, exp, cls = r
                cfg = {'depth': depth, 'omit_title': omit, 'filter_conds': FILTER_SRC[fname]}
                res['failures'].append({
                    'key': '%s|%r' % (contract, (x, depth, omit, fname)),
                    'contract': contract, 'class': cls,
                    'input': {'markdown': x, 'config': cfg,
                              'outline': [list(p) for p in zip(levels, texts)]},
                    'observed': obs, 'expected': exp,
                    'replay': 'from mistletoe import Document\n'
                              'from mistletoe.contrib.toc_renderer import TocRenderer\n'
                              'with TocRenderer(depth=%d, omit_title=%r, filter_conds=%s) as r:\n'
                              '    r.render(Document(%r)); print(r.toc)'
                              % (depth, omit, FILTER_SRC[fname], x)})
    if job:
        res['samples'] = [{'input': job[len(job) // 2][1]}]
    fl = res['failures']
    fl.sort(key=_fkey)
    res['total'] = len(fl)
    res['classes'] = {}
    res['first'] = {}
    for f in fl:
        res['classes'][f['class']] = res['classes'].get(f['class'], 0) + 1
        if f['class'] not in res['first']:
            res['first'][f['class']] = f
    res['failures'] = fl[:KEEP]
    return res


KEEP = 400


def _fkey(f):
    return (len(f['input']['markdown']), f['input']['markdown'], f['key'])


def _pmap(jobs, workers):
    if workers <= 1:
        return [_run(j) for j in jobs]
    import multiprocessing as mp
    with mp.get_context('fork').Pool(workers) as p:
        return p.map(_run, jobs, chunksize=1)


def run(tier, seed, workers):
    T = Timer()
    thorough = tier == 'thorough'
    nmax = 7 if thorough else 5
    rots = (0, 1, 2, 4) if thorough else (0, 1)
    cases = []
    seen = set()
    n_out = 0
    for n in range(0, nmax + 1):
        for levels in outlines(n):
            n_out += 1
            for rot in rots:
                titles = [POOL[(i + rot) % len(POOL)] for i in range(n)]
                for sp in SPELLINGS:
                    for cont in CONTAINERS:
                        for paras in (False, True):
                            x = build_doc(levels, titles, sp, cont, paras)
                            if x in seen:
                                continue
                            seen.add(x)
                            cases.append(('toc-structure', x, levels, tuple(titles),
                                          quoted_setext(levels, sp, cont)))
    n_plain = len(cases)
    for n in range(0, 3):
        for levels in outlines(n):
            titles = [POOL[i % len(POOL)] for i in range(n)]
            x = build_doc(levels, titles, 'atx', 'top', False)
            cases.append(('toc-reused-renderer', x, levels, tuple(titles), frozenset()))
    n_plain = len(cases)
    for n in range(1, 4):
        for levels in outlines(n):
            for rot in range(len(MARKUPS)):
                src, txt = [], []
                for i in range(n):
                    word = POOL[(i + rot) % len(POOL)]
                    m, t = MARKUPS[(i + rot) % len(MARKUPS)]
                    src.append(m.format(word))
                    txt.append(t.format(word))
                x = build_doc(levels, src, 'atx', 'top', False)
                if x not in seen:
                    seen.add(x)
                    cases.append(('toc-markup-title', x, levels, tuple(txt), frozenset()))
    jobs = chunks(cases, workers * 8)
    results = _pmap(jobs, workers)
    out = {'evaluations': 0, 'distinct_nontrivial': 0, 'contract_evaluations': 0}
    fl = []
    samples = []
    for r in results:
        for k in out:
            out[k] += r[k]
        fl.extend(r['failures'])
        if r['samples'] and len(samples) < 6:
            samples.extend(r['samples'])
    fl.sort(key=_fkey)
    classes = {}
    firsts = {}
    total = 0
    for r in results:
        total += r['total']
        for c, k in r['classes'].items():
            classes[c] = classes.get(c, 0) + k
        for c, f in r['first'].items():
            if c not in firsts or _fkey(f) < _fkey(firsts[c]):
                firsts[c] = f
    firsts = {c: {'contract': f['contract'], 'input': f['input'], 'observed': f['observed'],
                  'expected': f['expected']}
              for c, f in firsts.items()}
    out.update({
        'domain': (
            'all %d outlines with <= %d headings (levels 1..6, first heading at the shallowest '
            'level, never deepening by more than one; the empty outline included) x title '
            'rotations %r of the pool %r x spelling {ATX, setext for levels 1-2} x container '
            '{top level, block quote, list item, alternating top/quote} x {headings only, '
            'interleaved paragraphs} = %d distinct documents, plus %d documents (outlines with '
            '<= 3 headings) whose titles carry inline markup (contract toc-markup-title), plus the outlines with <= 2 headings '
            'rendered by a renderer instance that rendered another document before (contract toc-reused-renderer); each x '
            'depth 1..6 x omit_title {True, False} x filter_conds {[], [lambda s: "skip" in s], '
            '[lambda s: s.startswith("A")]}'
            % (n_out, nmax, rots, POOL, n_plain, len(cases) - n_plain)),
        'rule': 'a case is one (document, depth, omit_title, filter set); non-trivial when at '
                'least two headings qualify and they are on at least two levels',
        'exhaustive': True,
        'samples': samples,
        'failures_total': total,
        'failures_by_class': classes,
        'minimal_input_per_class': firsts,
        'failures': fl[:400],
        'time_s': round(T.s(), 1),
    })
    return out
