"""C14 -- ordinary prose passes through unchanged (bounded tier).

Runtime contracts on the real parser + renderer, `HtmlRenderer().render(Document(p))`:

  noraise      returns (no exception)
  passthrough  result == '<p>' + escape(lines of p stripped of leading/trailing spaces, joined
               by LF) + '</p>\\n'   with escape = & < > only

Precondition: `spec_inert.inert(lines)` -- an independent predicate written from CommonMark 0.30
sections 4.1-4.10, 5.1-5.3, 2.4, 2.5, 6.1-6.7 (+ GFM table delimiter rows and strikethrough, the
two extensions the HTML renderer enables).  Paragraphs that are not inert are excluded, not failed.
"""
import itertools
import random
import re
import traceback

from runtime.common import use_repo, pool_map, merge
from runtime import spec_inert as SI

VOCAB = [
    # plain words
    'foo', 'Bar', 'x', 'I', 'caf\u00e9', 'word',
    # intraword / edge underscores and stars
    'snake_case', 'a_b_c', 'foo_bar_baz', 'x_1', '_private', 'trailing_', '__init__', '__x', 'y__',
    '2*3', 'a*b', '2*3*4', '*star', 'star*', '**bold', 'bold**',
    # isolated punctuation that starts blocks or inlines in other positions
    '*', '**', '***', '-', '--', '---', '+', '#', '##', '#######', '>', '>>', '=', '==', '=-=', '-=',
    '|', '||', '~', '~~', '~~~', '^', '$', '%', '@', '_', '__', '___', '`', '``',
    # brackets
    '[', ']', '(', ')', '{', '}', '[x', 'x]', '(y', 'y)', 'a[1', 'arr[0]', '[]', '[x]', 'f(x)', '](',
    '][', '![', '!', '[x]:',
    # ampersands
    '&', '&&', 'AT&T', 'a&b', '&x', '&amp', '&copy', '&x;', 'R&D;', '&#;', '&#x;', '&;',
    # digits, dots, parentheses
    '3.14', '(1)', 'a.', '1.5)', 'x)', '1.x', '1)', '2)', '1.', '2.', '0.', '10.', '123456789.',
    '1234567890.', 'v1.2', '.5', '.', '..', '...', '1.)', '(a)', '1..', '007', '-1', '+1', '1-',
    '\u0661.', '\uff11)', '\u00b2.',
    # hashes, comparison, arrows
    'C#', '#hashtag', '#1', 'a>b', 'x<y', '<3', '<', '<-', '<=', '=>', '->', '>=', '1<2', 'a|b', '|x',
    # quotes, misc
    '"quoted"', "'single'", '\u201ccurly\u201d', '\u00a1hola!', '\u2014', '\u2026', '100%', '$5',
    'a^2', '~x', 'x~', 'user@', ':-)', ';)', ':(', 'a/b', 'C:\\dir', 'a\\b', '\\', 'e.g.', 'what?!',
]
assert len(VOCAB) == len(set(VOCAB))
PLAIN = re.compile(r'^[A-Za-z0-9 \n]*$')

_R = None


def _renderer():
    global _R
    if _R is None:
        use_repo()
        from mistletoe import Document, HtmlRenderer
        r = HtmlRenderer()
        r.__enter__()
        _R = (r, Document)
    return _R


def classify(lines, observed):
    digitless = re.compile(r'^ {0,3}[.)](?: |$)')
    nonascii = re.compile(r'^ {0,3}(\d{1,9})[.)](?: |$)')
    tags = re.findall(r'<([a-z0-9]+)', observed)
    first = tags[0] if tags else 'none'
    if observed.startswith('EXC'):
        return 'exception'
    if ('h1' in tags or 'h2' in tags) and any(
            re.match(r'^ {0,3}[=-]+ *$', ln) and '=' in ln and '-' in ln for ln in lines[1:]):
        return 'setext-underline-mixed-characters'
    if 'li' in tags:
        if any(digitless.match(ln) for ln in lines):
            return 'list-marker-without-digits'
        for ln in lines:
            m = nonascii.match(ln)
            if m and not m.group(1).isascii():
                return 'list-marker-non-ascii-digit'
    if any(len(ln) - len(ln.lstrip(' ')) >= 4 and SI.RE_TABLE_DELIM.match(ln.lstrip(' '))
           for ln in lines[1:]):
        return 'table-lookahead-accepts-delimiter-row-indented-4+'
    if 'li' in tags:
        return 'other-list'
    return 'other-' + first


def check_many(cases):
    res = {'evaluations': 0, 'distinct_nontrivial': 0, 'contract_evaluations': 0, 'failures': [],
           'samples': [], 'generated': 0, 'excluded': {}, 'by_class': {}}
    r, Document = _renderer()
    for lines in cases:
        res['generated'] += 1
        why = SI.why_not_inert(lines)
        if why is not None:
            res['excluded'][why] = res['excluded'].get(why, 0) + 1
            continue
        p = '\n'.join(lines)
        expected = SI.expected_html(lines)
        res['evaluations'] += 1
        nontrivial = not PLAIN.match(p)
        if nontrivial:
            res['distinct_nontrivial'] += 1
        res['contract_evaluations'] += 1
        try:
            got = r.render(Document(p))
        except Exception as e:  # noqa
            fr = traceback.extract_tb(e.__traceback__)[-1]
            got = 'EXC %s: %s @ %s:%s' % (type(e).__name__, e, fr.filename.rsplit('/', 1)[-1], fr.name)
            contract = 'noraise'
        else:
            res['contract_evaluations'] += 1
            contract = 'passthrough'
        if got != expected:
            cls = classify(lines, got)
            res['failures'].append({
                'key': '%s|%r' % (contract, p), 'contract': contract, 'input': p, 'observed': got,
                'expected': expected, 'class': cls,
                'replay': 'from mistletoe import Document, HtmlRenderer; '
                          'print(HtmlRenderer().render(Document(%r)))' % p})
            res['by_class'][cls] = res['by_class'].get(cls, 0) + 1
        elif nontrivial and len(res['samples']) < 2 and len(lines) > 1:
            res['samples'].append({'input': p, 'output': got})
    return res


def _lines_of(ntok, first=None):
    """All lines of `ntok` tokens (optionally with fixed first token)."""
    if first is None:
        for tup in itertools.product(VOCAB, repeat=ntok):
            yield ' '.join(tup)
    else:
        for tup in itertools.product(VOCAB, repeat=ntok - 1):
            yield ' '.join((first,) + tup)


# seed-independent paragraphs: one per recorded finding / repaired defect / seeded change that the
# sampled part of the domain reached only for some seeds
DIRECTED = [
    ['a |', '     --- |'],                       # delimiter row indented 4+: continuation text (recorded finding)
    ['x', 'y', '    | --'],                      # no pipe in the would-be header line (fixed 32ece83)
    ['the old rule said', '\t> 10 items'],       # a tab-indented '>' is no block quote marker
    ['total | 10', '-5 | discount'], ['happy | sad', ':-) | :-('],   # second line only STARTS like a delimiter row
    ['a', '\t# b'], ['a', '\t- b'], ['a', ' \t1. b'], ['a', '\t***'], ['a', '\t```'],
]


def _cases(task):
    if task[0] == 'directed':
        for lines in DIRECTED:
            yield list(lines)
        return
    if task[0] == 'ex':
        _, shape, first = task
        if len(shape) == 1:
            for ln in _lines_of(shape[0], first):
                yield [ln]
        else:
            for l0 in _lines_of(shape[0], first):
                for l1 in _lines_of(shape[1]):
                    yield [l0, l1]
    else:
        _, seed, chunk, count = task
        rnd = random.Random('C14/%d/%d' % (seed, chunk))
        exhaustive_shapes = {(1,), (2,), (1, 1), (1, 2), (2, 1)}
        for _ in range(count):
            while True:
                nl = rnd.choice((1, 2, 2, 3, 3, 4))
                shape = tuple(rnd.choice((1, 1, 2, 2, 3, 4)) for _ in range(nl))
                if shape not in exhaustive_shapes:
                    break
            lines = []
            decorate = rnd.random() < 0.3
            for i, k in enumerate(shape):
                ln = ' '.join(rnd.choice(VOCAB) for _ in range(k))
                if decorate:
                    if rnd.random() < 0.4:
                        ln = ' ' * rnd.randint(1, 3 if i == 0 else 5) + ln
                    if rnd.random() < 0.25:
                        ln = ln + ' '
                    if i > 0 and rnd.random() < 0.2:
                        # a tab-indented continuation line (four columns: it can start no block)
                        ln = rnd.choice(('\t', ' \t', '\t ')) + ln.lstrip(' ')
                lines.append(ln)
            yield lines


def _run_task(task):
    return check_many(_cases(task))


def run(tier, seed, workers):
    thorough = tier == 'thorough'
    n_self = SI.selftest()
    shapes = [(1,), (2,), (1, 1)] + ([(1, 2), (2, 1)] if thorough else [])
    tasks = [('directed',), ('ex', (1,), None)]
    for sh in shapes[1:]:
        for tok in VOCAB:
            tasks.append(('ex', sh, tok))
    n_rand = 2000000 if thorough else 60000
    per = 4000
    for c in range(n_rand // per):
        tasks.append(('rand', seed, c, per))
    tasks.sort(key=lambda t: 0 if (t[0] == 'ex' and len(t[1]) == 2 and sum(t[1]) == 3) else 1)
    parts = pool_map(_run_task, tasks, workers)
    out = merge(parts)
    excluded, generated = {}, 0
    for p in parts:
        generated += p['generated']
        for k, v in p['excluded'].items():
            excluded[k] = excluded.get(k, 0) + v
    fails = {}
    for f in out['failures']:
        fails.setdefault(f['key'], f)
    fl = sorted(fails.values(), key=lambda f: (len(f['input']), f['input']))
    by_class, minimal, by_lines = {}, {}, {}
    for f in fl:
        by_class[f['class']] = by_class.get(f['class'], 0) + 1
        minimal.setdefault(f['class'], f['input'])
        k = '%s|lines=%d' % (f['class'], f['input'].count('\n') + 1)
        by_lines[k] = by_lines.get(k, 0) + 1
    out['failures_total'] = len(fl)
    out['failures'] = fl[:400]
    out['failures_by_class'] = dict(sorted(by_class.items(), key=lambda kv: -kv[1]))
    out['failures_by_class_and_line_count'] = dict(sorted(by_lines.items()))
    out['minimal_input_per_class'] = minimal
    out['generated'] = generated
    out['excluded_by_precondition'] = dict(sorted(excluded.items(), key=lambda kv: -kv[1]))
    out['exhaustive'] = False
    out['samples'] = out['samples'][:8]
    V = len(VOCAB)
    out['domain'] = (
        'paragraphs of lines of tokens joined by single spaces, lines joined by LF, over a vocabulary '
        'of %d tokens; EXHAUSTIVE for the line shapes (tokens per line) %s; plus %d seeded random '
        'paragraphs of 1-4 lines with 1-4 tokens per line (other shapes than the exhaustive ones), '
        '30%% of them decorated with 1-3 (first line) / 1-5 (later lines) leading spaces, single '
        'trailing spaces and (later lines, 20%%) a leading tab; %d paragraphs generated, %d pass the inertness precondition and are '
        'evaluated (predicate self-tested on %d hand-derived cases). NOT covered exhaustively: two '
        'lines of two tokens each (%d paragraphs; sampled only).'
        % (V, ', '.join(str(s) for s in shapes), n_rand, generated, out['evaluations'], n_self, V ** 4))
    out['rule'] = ('a case is non-trivial when the paragraph contains at least one character other '
                   'than ASCII letters, digits, space and LF; contracts per case: noraise, passthrough')
    return out
