"""C13 (bounded tier): every block token reports the source line on which it starts.

Runtime contract on the real `Document` of the tree under test, for (tree, spelling) pairs of the
DOCS generator (runtime/docs.py), whose writer records the 1-based line on which it wrote the
first character of every block:

    noraise:  Document(written.text) raises nothing
    c13:      for every block token at any depth whose kind maps to a tree node (paragraph, ATX and
              setext heading, fenced and indented code, quote, list, list item, table, table row,
              table cell, thematic break, HTML block):
                  token.line_number == written.lines[node.id]

Tokens are matched to nodes structurally (same traversal order, link definitions skipped).  If
the document does not parse to the tree it was written from (rendered HTML differs, or the token
shape differs) the case is a C03 failure, not a C13 one: it is skipped and counted in
`skipped_c03_failure`.
"""
import hashlib
import re

from runtime.common import use_repo, pool_map
from runtime import docs
from runtime.docs import Node, T
from runtime.docs_shrink import shrink

MAX_FAILURES = 400

KIND = {'Paragraph': 'para', 'Heading': 'atx', 'SetextHeading': 'setext', 'ThematicBreak': 'hr',
        'CodeFence': 'fence', 'BlockCode': 'icode', 'Quote': 'quote', 'List': 'list',
        'Table': 'table', 'HtmlBlock': 'html'}


class Shape(Exception):
    pass


def parse(text):
    """-> (Document, rendered html)"""
    use_repo()
    from mistletoe import Document, HtmlRenderer
    with HtmlRenderer() as r:            # HtmlBlock is a block token only while it is active
        doc = Document(text)
        return doc, r.render(doc)


def pairs(tokens, nodes, path, out):
    """Append (path, kind, token, node) for all matched block tokens; raise Shape on mismatch."""
    nodes = docs.nodefs(nodes)
    if len(tokens) != len(nodes):
        raise Shape('%s: %d tokens for %d nodes' % (path, len(tokens), len(nodes)))
    for i, (tok, n) in enumerate(zip(tokens, nodes)):
        p = '%s/%s[%d]' % (path, n.kind, i)
        name = type(tok).__name__
        if KIND.get(name) != n.kind:
            raise Shape('%s: token %s for node %s' % (p, name, n.kind))
        out.append((p, n.kind, tok, n))
        if n.kind == 'quote':
            pairs(tok.children, n.children, p, out)
        elif n.kind == 'list':
            if (tok.start is not None) != n.ordered or len(tok.children) != len(n.items):
                raise Shape('%s: list shape' % p)
            for k, (ti, it) in enumerate(zip(tok.children, n.items)):
                pi = '%s/item[%d]' % (p, k)
                if type(ti).__name__ != 'ListItem':
                    raise Shape(pi)
                out.append((pi, 'item', ti, it))
                pairs(ti.children, it.children, pi, out)
        elif n.kind == 'table':
            rows = [(getattr(tok, 'header', None), n.header)] + list(zip(tok.children, n.rows))
            if len(tok.children) != len(n.rows) or rows[0][0] is None:
                raise Shape('%s: table rows' % p)
            for k, (tr, r) in enumerate(rows):
                pr = '%s/row[%d]' % (p, k)
                if type(tr).__name__ != 'TableRow' or len(tr.children) != len(r.cells):
                    raise Shape(pr)
                out.append((pr, 'row', tr, r))
                for j, (tc, c) in enumerate(zip(tr.children, r.cells)):
                    out.append(('%s/cell[%d]' % (pr, j), 'cell', tc, c))


def check(w):
    """-> ('ok'|'shape'|'noraise'|'c13', n_compared, detail)"""
    try:
        doc, html = parse(w.text)
    except Exception as e:               # noqa
        return 'noraise', 0, '%s: %s' % (type(e).__name__, e)
    # precondition: the document parsed to the tree it was written from (otherwise it is a C03
    # failure and token/node matching would be meaningless even if the shapes happen to agree);
    # the renderer-only deviation "<tbody></tbody> for a table without rows" is tolerated
    got = docs.normalize_html(html).replace('<tbody></tbody>', '')
    if got != docs.normalize_html(docs.serialise_html(w.tree)):
        return 'c03', 0, 'rendered HTML differs from the tree'
    out = []
    try:
        pairs(doc.children, w.tree, '', out)
    except Shape as e:
        return 'shape', 0, str(e)
    except Exception as e:               # noqa: malformed token tree
        return 'shape', 0, 'error while matching: %r' % (e,)
    bad = []
    for p, kind, tok, n in out:
        exp = w.lines.get(n.id)
        got = getattr(tok, 'line_number', None)
        if got != exp:
            bad.append({'path': p, 'expected_line': exp, 'observed_line': got})
    if getattr(doc, 'line_number', None) != 1:
        bad.append({'path': '/', 'expected_line': 1, 'observed_line': getattr(doc, 'line_number', None)})
    return ('c13' if bad else 'ok'), len(out) + 1, bad


def _fails(w):
    return check(w)[0] == 'c13'


def blank_start_items(w):
    return w.blank_start_items


def classify(w, bad):
    """'listitem-blank-start-children-one-line-early' when every wrong token lies inside an item
    that begins with a blank line and is early by the number of such enclosing items."""
    bs = blank_start_items(w)
    if not bs:
        return 'unclassified'
    depth = {}

    def walk(bs_, d, path):
        for i, b in enumerate(docs.nodefs(bs_)):
            p = '%s/%s[%d]' % (path, b.kind, i)
            depth[p] = d
            if b.kind == 'quote':
                walk(b.children, d, p)
            elif b.kind == 'list':
                for k, it in enumerate(b.items):
                    pi = '%s/item[%d]' % (p, k)
                    depth[pi] = d
                    walk(it.children, d + (1 if it.id in bs else 0), pi)
            elif b.kind == 'table':
                for k in range(len(b.rows) + 1):
                    pr = '%s/row[%d]' % (p, k)
                    depth[pr] = d
                    for j in range(len(b.aligns)):
                        depth['%s/cell[%d]' % (pr, j)] = d
    walk(w.tree, 0, '')
    for m in bad:
        d = depth.get(m['path'])
        if not d or m['observed_line'] is None or m['expected_line'] - m['observed_line'] != d:
            return 'unclassified'
    return 'listitem-blank-start-children-one-line-early'


# ------------------------------------------------------------------------------------------
# hand-built trees for the situations the property names explicitly

def P(*words):
    inl = []
    for i, wd in enumerate(words):
        if i:
            inl.append(Node('soft'))
        inl.append(T(wd))
    return Node('para', inl=inl)


def UL(*items, tight=True):
    return Node('list', ordered=False, tight=tight, start=None,
                items=[Node('item', children=list(ch)) for ch in items])


def OL(start, *items, tight=True):
    return Node('list', ordered=True, tight=tight, start=start,
                items=[Node('item', children=list(ch)) for ch in items])


def Q(*ch):
    return Node('quote', children=list(ch))


def D(label):
    return Node('linkdef', label=label, dest='/url', title='')


def TBL():
    def row(*c):
        return Node('row', cells=[Node('cell', inl=[T(x)]) for x in c])
    return Node('table', header=row('a', 'b'), aligns=[None, 'center'], rows=[row('c', 'd'), row('e', 'f')])


def hand_trees():
    F = lambda: Node('fence', info='py', lines=['x', '', 'y'])       # noqa: E731
    H = lambda: Node('atx', level=2, inl=[T('head')])                # noqa: E731
    return [
        [UL([P('foo')])],                                            # '-\n  foo' when blank-start
        [UL([P('foo', 'bar')], [P('baz')])],
        [UL([P('foo'), F()], [H(), P('x')], tight=False)],
        [OL(7, [P('a', 'b', 'c')], [Node('icode', lines=['code'])], tight=False)],
        [Q(P('foo', 'bar', 'baz'))],                                 # lazy lines
        [Q(UL([Q(P('deep', 'lazy'), H())], [P('x', 'y')]))],         # quote-in-list-in-quote
        [Q(Q(P('a', 'b')), P('c', 'd'))],
        [D('foo'), P('one'), D('bar'), D('baz'), H(), D('qux'), P('two', 'three')],
        [D('foo'), Q(D('bar'), P('in'), D('baz'), F()), UL([D('q'), P('item')], [P('i2')])],
        [P('top'), TBL(), Q(TBL()), UL([TBL()], [P('z')], tight=False)],
        [Node('hr'), Node('setext', level=1, inl=[T('title')]), Node('html', text=docs.HTML_FORMS[0]),
         Node('icode', lines=['a', '', 'b']), P('end')],
        [UL([UL([UL([P('deep', 'er')])])]), P('after')],
        [OL(1, [Q(UL([P('a', 'b')], [F()]))], [P('c')], tight=False)],
        [UL([Node('hr')], [F()], [Node('icode', lines=['baz'])], [H()], [Q(P('q'))])],
    ]


# ------------------------------------------------------------------------------------------
# LINES: directed documents written line by line.  A block is a list of source lines (relative to
# its container) plus the expected token shape with relative start lines; containers prefix the
# lines of their content and shift nothing else, so the writer knows the line of every block
# without any parser.  This domain adds what the DOCS writer cannot spell: identical sibling
# blocks and table rows, spacer / short / over-long rows, runs of >= 2 blank lines (also
# whitespace-only ones) between blocks, after list items and at the start of the input, setext
# headings with multi-line content, multi-line link reference definitions followed directly by
# text, whitespace-only lines in front of an indented code block.

NAMES = dict(KIND, ListItem='item', TableRow='row', TableCell='cell')


class Blk:
    __slots__ = ('lines', 'exp', 'lazy', 'tag', 'empty_start')

    def __init__(self, lines, exp, lazy=(), tag=''):
        self.lines = lines      # source lines without terminators
        self.exp = exp          # [(kind, relative line, children | None)]; None: cells of a row
        self.lazy = set(lazy)   # paragraph continuation lines whose container prefixes may be dropped
        self.tag = tag
        self.empty_start = False   # a list whose first item has nothing behind its marker


def _shift(exp, d):
    return [(k, o + d, None if ch is None else _shift(ch, d)) for k, o, ch in exp]


def leaf(kind, *lines, tag=None):
    return Blk(list(lines), [(kind, 0, [])], tag=tag or kind)


def para(*lines):
    return Blk(list(lines), [('para', 0, [])], range(1, len(lines)), 'para')


def defn(*lines):
    return Blk(list(lines), [], tag='def')


def table(*lines):
    """lines[0] header row, lines[1] delimiter row, then the body rows"""
    rows = [('row', 0, None)] + [('row', k, None) for k in range(2, len(lines))]
    return Blk(list(lines), [('table', 0, rows)], tag='table')


def seq(blocks, gaps=1, lead=()):
    """Sibling sequence; gaps: one entry (or one per gap), a count of empty lines or the list of
    blank lines themselves; lead: blank lines in front of the first block."""
    lines, exp, lazy = list(lead), [], set()
    for i, b in enumerate(blocks):
        if i:
            g = gaps[i - 1] if isinstance(gaps, (list, tuple)) else gaps
            lines.extend([''] * g if isinstance(g, int) else g)
        d = len(lines)
        lines.extend(b.lines)
        exp.extend(_shift(b.exp, d))
        lazy |= {d + j for j in b.lazy}
    return Blk(lines, exp, lazy, blocks[0].tag if len(blocks) == 1 else 'seq')


def quote(blocks, gaps=1, lead=(), lazy=False):
    inner = seq(blocks, gaps, lead) if blocks else Blk([''], [])
    lines, lz = [], set()
    for i, l in enumerate(inner.lines):
        if lazy and i in inner.lazy:
            lines.append(l)
            lz.add(i)
        else:
            lines.append('>' if l == '' else '> ' + l)
    return Blk(lines, [('quote', 0, inner.exp)], lz, 'quote')


def item(blocks, gaps=1, blank_start=False, lazy=False):
    return (seq(blocks, gaps) if blocks else None, blank_start, lazy)


def lst(items, marker='-', between=0):
    """items: results of item(); marker '-', '+' or 'N.' / 'N)' (numbered upwards); between: blank
    lines between the items."""
    lines, kids, lz = [], [], set()
    for k, (inner, bs, lazy) in enumerate(items):
        m = '%d%s' % (int(marker[:-1]) + k, marker[-1]) if marker[0].isdigit() else marker
        if k:
            lines.extend([''] * between if isinstance(between, int) else between)
        d = len(lines)
        if inner is None:
            lines.append(m)
            kids.append(('item', d, []))
            continue
        w, off = len(m) + 1, 0
        if bs:
            lines.append(m)
            off = 1
        for i, l in enumerate(inner.lines):
            if i == 0 and not bs:
                lines.append(m + ' ' + l)
            elif l == '':
                lines.append('')
            elif lazy and i in inner.lazy:
                lines.append(l)
                lz.add(d + off + i)
            else:
                lines.append(' ' * w + l)
        kids.append(('item', d, _shift(inner.exp, d + off)))
    r = Blk(lines, [('list', 0, kids)], lz, 'list' + marker[-1])
    r.empty_start = items[0][0] is None or items[0][1]
    return r


def ldoc(blocks, gaps=1, lead=(), end='\n'):
    b = seq(blocks, gaps, lead)
    return '\n'.join(b.lines) + end, _shift(b.exp, 1)


def lmatch(tokens, exp, path, out):
    """Append (path, kind, token, expected line); raise Shape when the token tree is not the
    expected one (the case then is a parsing matter, C03, not a line-number one)."""
    if len(tokens) != len(exp):
        raise Shape('%s: %d tokens for %d blocks' % (path, len(tokens), len(exp)))
    for i, (tok, (kind, line, ch)) in enumerate(zip(tokens, exp)):
        p = '%s/%s[%d]' % (path, kind, i)
        if NAMES.get(type(tok).__name__) != kind:
            raise Shape('%s: token %s for %s' % (p, type(tok).__name__, kind))
        out.append((p, kind, tok, line))
        if kind in ('quote', 'list', 'item'):
            lmatch(tok.children, ch, p, out)
        elif kind == 'table':
            rows = [getattr(tok, 'header', None)] + list(tok.children)
            if rows[0] is None or len(rows) != len(ch):
                raise Shape('%s: table rows' % p)
            for k, (tr, (_, rl, _)) in enumerate(zip(rows, ch)):
                pr = '%s/row[%d]' % (p, k)
                if type(tr).__name__ != 'TableRow':
                    raise Shape(pr)
                out.append((pr, 'row', tr, rl))
                # the number of cells of a short / over-long row is not this property's business:
                # every cell token of the row must report the row's line
                for j, tc in enumerate(tr.children):
                    if type(tc).__name__ != 'TableCell':
                        raise Shape(pr)
                    out.append(('%s/cell[%d]' % (pr, j), 'cell', tc, rl))


def lcheck(text, exp):
    """-> ('ok'|'shape'|'noraise'|'c13', n_compared, detail)"""
    try:
        doc, _ = parse_only(text)
    except Exception as e:               # noqa
        return 'noraise', 0, '%s: %s' % (type(e).__name__, e)
    out = []
    try:
        lmatch(doc.children, exp, '', out)
    except Shape as e:
        return 'shape', 0, str(e)
    except Exception as e:               # noqa: malformed token tree
        return 'shape', 0, 'error while matching: %r' % (e,)
    bad = [{'path': p, 'expected_line': line, 'observed_line': getattr(tok, 'line_number', None)}
           for p, kind, tok, line in out if getattr(tok, 'line_number', None) != line]
    if getattr(doc, 'line_number', None) != 1:
        bad.append({'path': '/', 'expected_line': 1, 'observed_line': getattr(doc, 'line_number', None)})
    return ('c13' if bad else 'ok'), len(out) + 1, bad


_PREFIX = re.compile(r'((?:[ \t]*(?:>|[-+]|[0-9]{1,9}[.)]))*)([ \t]*)')


def _blank_tail(line):
    """The whitespace behind the container markers of a line that holds nothing else, or None."""
    m = _PREFIX.fullmatch(line)
    return m.group(2) if m else None


def lclassify(text, bad):
    """'indented-code-block-starts-at-preceding-whitespace-line': the only wrong tokens are
    indented code blocks, reported early, on a line that holds >= 4 columns of white space and
    nothing else (behind the container markers), all lines between that line and the first line
    of code being blank -- CommonMark 0.30 section 4.4: blank lines preceding an indented code
    block are not part of it."""
    src = text.split('\n')
    for m in bad:
        o, e = m['observed_line'], m['expected_line']
        if not m['path'].rsplit('/', 1)[-1].startswith('icode[') or not isinstance(o, int) or not 1 <= o < e:
            return 'unclassified'
        tails = [_blank_tail(src[k - 1]) for k in range(o, e)]
        if any(t is None for t in tails) or len(tails[0].expandtabs(4)) < 4:
            return 'unclassified'
    return 'indented-code-block-starts-at-preceding-whitespace-line'


# -- vocabulary ----------------------------------------------------------------------------

VOCAB = {
    'p1': lambda: para('aaa'),
    'p2': lambda: para('aaa', 'bbb'),
    'p3': lambda: para('foo', 'bar', 'baz'),
    'atx': lambda: leaf('atx', '# head'),
    'setext': lambda: leaf('setext', 'Title', '====='),
    'setext3': lambda: leaf('setext', 'multi', 'line title', 'third', '==='),
    'setext-': lambda: leaf('setext', 'multi', 'line', '---', tag='setext'),
    'hr': lambda: leaf('hr', '***'),
    'fence': lambda: leaf('fence', '```', 'code', '```'),
    'fenceb': lambda: leaf('fence', '~~~ py', 'x', '', '', 'y', '~~~'),
    'icode': lambda: leaf('icode', '    code'),
    'icodeb': lambda: leaf('icode', '    a', '', '      ', '    b', tag='icode'),
    'html': lambda: leaf('html', '<div>', 'hello', '</div>', tag='html6'),
    'htmlc': lambda: leaf('html', '<!-- c -->'),
    'htmlp': lambda: leaf('html', '<pre>', 'x', '', 'y', '</pre>'),
    'table': lambda: table('| a | b |', '|---|---|', '| c | d |', '| c | d |'),
    'quote': lambda: quote([para('qq')]),
    'quotez': lambda: quote([para('qq', 'lazy')], lazy=True),
    'quote2': lambda: quote([para('qq'), leaf('atx', '## h')], gaps=2),
    'list': lambda: lst([item([para('li')])]),
    'list2': lambda: lst([item([para('li')]), item([para('li')])]),
    'list2l': lambda: lst([item([para('li')]), item([para('li')])], between=1),
    'listn': lambda: lst([item([para('li'), lst([item([para('li')])], '+')], gaps=0)]),
    'listb': lambda: lst([item([para('li')], blank_start=True), item([])]),
    'olist': lambda: lst([item([para('li')]), item([para('li', 'li')])], '1.'),
    'quotee': lambda: quote([]),
    'liste': lambda: lst([item([]), item([para('li')])]),
    'def1': lambda: defn('[foo]: /url'),
    'def2': lambda: defn('[foo]: /url', '  "the title"'),
    'def3': lambda: defn('[foo]:', '/url', "'t'"),
    'def4': lambda: defn('[foo]: /url "multi', 'line"', '[bar]: /u2'),
    'def5': lambda: defn('[fo', 'o]: <u>'),
    # the second line is not a title: the definition ends on line 1, a paragraph starts on line 2
    'defp': lambda: Blk(['[foo]: /url', '"title" trailing'], [('para', 1, [])], tag='para'),
}
LEAVES = ['p1', 'p2', 'atx', 'setext', 'setext3', 'setext-', 'hr', 'fence', 'fenceb', 'icode', 'icodeb',
          'html', 'htmlc', 'htmlp', 'table']
CONTS = ['quote', 'quotez', 'quote2', 'quotee', 'list', 'list2', 'list2l', 'listn', 'listb', 'liste', 'olist']
DEFS = ['def1', 'def2', 'def3', 'def4', 'def5', 'defp']

TABLES = {
    'dup': ('| a | b |', '|---|---|', '| c | d |', '| c | d |'),
    'dup5': ('| a | b |', '| --- | :-: |', '| c | d |', '| e | f |', '| c | d |', '| e | f |', '| c | d |'),
    'hdr': ('| a | b |', '|---|---|', '| a | b |', '| c | d |', '| a | b |'),
    'spacer': ('| a | b |', '|---|---|', '|  |  |', '| c | d |', '|  |  |', '|  |  |'),
    'delim': ('| a | b |', '|---|---|', '|---|---|', '| c | d |', '|---|---|'),
    'short': ('| a | b |', '|---|---|', '| c |', '| c |', '| c | d |'),
    'long': ('| a | b |', '|---|---|', '| c | d | e |', '| c | d |', '| c | d | e |'),
    'astral': ('| \U0001F600 | é |', '|:--|--:|', '| \U0001F600 | é |', '| \U00010348́ | x |',
               '| \U0001F600 | é |'),
    'nopipe': ('a | b', '--- | ---', 'c | d', 'c | d'),
    'onecol': ('| a |', '|---|', '| a |', '| b |', '| a |'),
    'norows': ('| a | b |', '|---|---|'),
    'spaces': ('| a | b |', '|---|---|', '| c | d |', '|c|d|', '| c | d |  ', '|  c  |  d  |', '| c | d |'),
    'escpipe': ('| a | b |', '|---|---|', '| `x\\|y` | d |', '| `x\\|y` | d |'),
}


def allowed(a, b, g):
    """May block b follow block a after g blank lines (tags; CommonMark 0.30 sections 4-5)?"""
    ta, tb = a.tag, b.tag
    if ta == 'icode' and tb == 'icode':
        return False                      # one code block
    if ta.startswith('list') and (tb == 'icode' or tb == ta):
        return False                      # continuation of the last item / one list
    if g > 0:
        return True
    if tb == 'eof':
        return True
    if ta in ('atx', 'hr', 'fence', 'html', 'setext'):
        return True                       # closed on their last line
    if ta == 'def':
        # an indented line or an empty list item cannot interrupt the paragraph-like definition
        return tb != 'icode' and not getattr(b, 'empty_start', False) and tb not in ('list.', 'list)')
    if ta == 'para':
        return tb in ('atx', 'hr', 'fence', 'quote', 'html', 'html6')
    if ta == 'table':
        return tb in ('atx', 'hr', 'fence', 'quote')
    return False                          # html6, quote, list: a blank line is needed


def EOF():
    """Nothing: `[x, EOF()]` with gap n writes n blank lines behind x."""
    return Blk([], [], tag='eof')


# contexts: (blocks, gaps, lead) -> (top-level blocks, gaps, lead), or None when not spellable.
# _q(outer) / _l(outer) wrap the blocks first and hand the result to `outer`:
# 'QL' = _l(_q()) is a list inside a quote, 'LQ' = _q(_l()) a quote inside a list item.
def _q(outer=None, lazy=False):
    def f(bs, g, lead):
        r = [quote(bs, g, lead, lazy=lazy)]
        return outer(r, 1, ()) if outer else (r, [], ())
    return f


def _l(outer=None, marker='-', blank_start=False, second=None, lazy=False):
    def f(bs, g, lead):
        if lead:
            return None                   # an item cannot begin with two blank lines
        if blank_start and bs[0].tag in ('def', 'eof'):
            return None
        items = [item(bs, g, blank_start=blank_start, lazy=lazy)]
        if second is not None:
            items.insert(0, item([para('one')]))
        r = [lst(items, marker, between=second or 0)]
        return outer(r, 1, ()) if outer else (r, [], ())
    return f


CTXS = {
    'top': lambda bs, g, lead: (bs, g if isinstance(g, (list, tuple)) else [g] * (len(bs) - 1), lead),
    'Q': _q(), 'Qz': _q(lazy=True),
    'L': _l(), 'Lz': _l(lazy=True), 'Lb': _l(blank_start=True), 'O': _l(marker='10.'),
    'L2': _l(second=0), 'L2l': _l(second=1), 'L2b': _l(second=2, blank_start=True),
    'QL': _l(_q()), 'QLz': _l(_q(lazy=True), lazy=True), 'LQ': _q(_l()), 'LQz': _q(_l(lazy=True), lazy=True),
    'QQ': _q(_q()), 'LL': _l(_l(), marker='+'), 'QLQ': _q(_l(_q())), 'LQL': _l(_q(_l()), marker='+'),
    'QL2': _l(_q(), second=1), 'LbQ': _q(_l(blank_start=True)),
    'pQ': lambda bs, g, lead: ([para('zzz'), quote(bs, g, lead)], [1], ()),
}
FEW = ('top', 'Q', 'L', 'Lb', 'L2l', 'QL', 'LQ', 'LQz')


def _ok_seq(bs, gaps):
    gl = gaps if isinstance(gaps, (list, tuple)) else [gaps] * (len(bs) - 1)
    for a, b, g in zip(bs, bs[1:], gl):
        if not allowed(a, b, g if isinstance(g, int) else len(g)):
            return False
    return True


class Cases:
    """The directed documents; `emit` counts every candidate and builds only those of slice k of n,
    so that the workers share the work without each generating everything."""

    def __init__(self, k, n):
        self.k, self.n, self.i, self.out = k, n, 0, []

    def emit(self, tag, ctx, build):
        """build() -> (blocks inside the context, gaps, lead[, top-level blocks behind the context,
        gap before them[, blank lines at the start of the document]])"""
        self.i += 1
        if self.i % self.n != self.k:
            return
        spec = tuple(build())
        bs, g, lead, after, ag, dlead = spec + (None, 1, ())[len(spec) - 3:]
        if not _ok_seq(bs, g):
            return
        r = CTXS[ctx](bs, g, lead)
        if r is None:
            return
        top, gaps, dl = r
        top, gaps = list(top), list(gaps)
        if after:
            gaps += [ag] + [1] * (len(after) - 1)
            top += after
            if not _ok_seq(top, gaps):
                return
        end = ('', '\n\n\n')[self.i % 7] if self.i % 7 < 2 else '\n'
        text, exp = ldoc(top, gaps, tuple(dl) + tuple(dlead), end)
        self.out.append(('%s|%s' % (tag, ctx), text, exp))


def _list_shapes():
    V = VOCAB
    P = lambda *a: para(*(a or ('li',)))      # noqa: E731
    return [
        ('one', lambda m: lst([item([P()])], m)),
        ('one2', lambda m: lst([item([P('li', 'li2')])], m)),
        ('two', lambda m: lst([item([P()]), item([P()])], m)),
        ('twol', lambda m: lst([item([P()]), item([P()])], m, between=2)),
        ('pf', lambda m: lst([item([P(), V['fence']()], gaps=2)], m)),
        ('bs', lambda m: lst([item([P()], blank_start=True)], m)),
        ('bs2', lambda m: lst([item([P()]), item([P(), P()], blank_start=True, gaps=2)], m)),
        ('nest', lambda m: lst([item([P(), lst([item([P()])], '+')], gaps=0)], m)),
        ('nest3', lambda m: lst([item([P(), lst([item([P(), lst([item([P()]), item([P()])], '1)')],
                                                      gaps=0)], '+')], gaps=0)], m)),
        ('nestbs', lambda m: lst([item([lst([item([P()], blank_start=True)], '+')], blank_start=True)], m)),
        ('late', lambda m: lst([item([P(), lst([item([P()])], '+'), P('ccc'), V['atx']()],
                                     gaps=[0, 2, 3])], m)),
        ('late2', lambda m: lst([item([P(), lst([item([P(), lst([item([P()])], '1.'), P('in')],
                                                      gaps=[0, 2])], '+'), P('out')], gaps=[0, 3])], m)),
        ('q', lambda m: lst([item([quote([P()])])], m)),
        ('qn', lambda m: lst([item([P(), quote([lst([item([P()]), item([P()])], '+')])], gaps=2)], m)),
        ('empty', lambda m: lst([item([P()]), item([])], m)),
        ('icode', lambda m: lst([item([V['icode']()]), item([P(), V['icodeb']()], gaps=2)], m)),
        ('tbl', lambda m: lst([item([V['table']()]), item([V['table']()])], m)),
    ]


def line_docs(k, n):
    """Slice k of n of the directed documents: [(tag, text, expected shape)] -- deterministic and
    independent of the seed."""
    V = VOCAB
    C = Cases(k, n)
    ctxs = list(CTXS)

    # A. tables: identical / spacer / short / over-long rows, in every context, preceded (inside
    #    the container) by blank lines, definitions and other blocks, followed by other blocks
    pres = [('none', [], [], ()), ('lead1', [], [], ['']), ('lead3', [], [], ['', '  ', '']),
            ('def0', ['def1'], [0], ()), ('def1', ['def1'], [1], ()), ('def2', ['def2'], [0], ()),
            ('def2b', ['def2', 'def3'], [0, 2], ()), ('para1', ['p1'], [1], ()), ('para3', ['p2'], [3], ()),
            ('atx0', ['atx'], [0], ()), ('tab', ['table'], [1], ()), ('lead+def', ['def4'], [1], [''])]
    posts = [('end', [], []), ('p', ['p1'], [1]), ('atx', ['atx'], [0]), ('same', ['table'], [2])]
    for tn, tl in TABLES.items():
        for c in ctxs:
            for pn, pb, pg, lead in pres:
                for an, ab, ag in posts:
                    C.emit('A:%s:%s:%s' % (tn, pn, an), c, lambda: (
                        [V[x]() for x in pb] + [table(*tl)] + [V[x]() for x in ab], pg + ag, lead))
            for dl in (['', ''], ['   ']):
                C.emit('A:%s:doclead' % tn, c, lambda: ([table(*tl)], 1, (), [V['p1']()], 1, dl))

    # B. lists followed by >= 2 blank lines and a non-list block / the end of input, at any depth
    followers = ['eof', 'p1', 'p2', 'atx', 'setext3', 'hr', 'fence', 'html', 'table', 'quote', 'olist', 'def2']
    for ln, mk in _list_shapes():
        for marker in ('-', '3.'):
            for nb in (1, 2, 3, ['  ', ''], ['', '    ', '']):
                for fo in followers:
                    for c in (ctxs if marker == '-' else FEW):
                        def fol():
                            if fo == 'eof':
                                return EOF()
                            return V['list']() if (fo == 'olist' and marker == '3.') else V[fo]()
                        # follower inside the context (in the container that holds the list) ...
                        C.emit('B:%s:%s:in:%s' % (ln, marker, fo), c, lambda: ([mk(marker), fol()], [nb], ()))
                        # ... and behind the context, at the top level
                        if c != 'top':
                            C.emit('B:%s:%s:out:%s' % (ln, marker, fo), c,
                                   lambda: ([mk(marker)], 1, (), [fol()], nb))

    # C. all ordered pairs of the vocabulary (identical siblings included) x gaps x contexts
    names = LEAVES + CONTS + DEFS
    for a in names:
        for b in names:
            for g in (0, 1, 2, 3):
                for c in ctxs:
                    def pair():
                        x, y = V[a](), V[b]()
                        if x.tag == y.tag and x.tag.startswith('list'):
                            y = lst([item([para('li')]), item([para('li')])], '+' if x.tag != 'list+' else '-')
                        return [x, y], g, ()
                    C.emit('C:%s:%s:%d' % (a, b, g), c, pair)
    # identical blocks around a different one
    for a in LEAVES + CONTS:
        for m in ('p1', 'atx', 'def2'):
            for c in ctxs:
                C.emit('C3:%s:%s' % (a, m), c, lambda: (
                    [V[a](), V[m](), lst([item([para('li')])], '+') if V[a]().tag.startswith('list') else V[a]()],
                    [1, 2] if m != 'def2' else [2, 1], ()))
    # identical list items (tight, loose, with children)
    for c in ctxs:
        for m in ('-', '1.'):
            for bt in (0, 1, 2, ['  '], ['', '   ']):
                for ch in (['p1'], ['p1', 'fence'], ['atx'], ['fence'], ['p2', 'quote'], ['icode'], []):
                    C.emit('C4:%s:%s:%s' % (m, bt, '+'.join(ch)), c, lambda: (
                        [lst([item([V[x]() for x in ch], gaps=1) for _ in range(3)], m, between=bt)], 1, ()))

    # D. blank lines at the start of the input (and of a container), empty and whitespace-only
    leads = [[''], ['', ''], ['', '', ''], [''] * 5, ['  '], ['\t'], ['', '   ', ''], ['   ', '']]
    for a in names:
        for ld in leads:
            for c in ('top', 'Q', 'QQ', 'LQ', 'pQ', 'QLQ'):
                C.emit('D:%s:%d' % (a, len(ld)), c, lambda: ([V[a](), V['p1']()], 1, ld))
            for c in ctxs:
                C.emit('D2:%s:%d' % (a, len(ld)), c, lambda: ([V[a]()], 1, (), [V['p1']()], 1, ld))

    # E. whitespace-only lines of >= 4 columns in front of an indented code block
    for pre in (None, 'p1', 'atx', 'fence', 'def1', 'quote'):
        for gap in (['    '], ['     '], ['', '      '], ['      ', ''], ['\t'], ['    ', '     '], ['  \t  ']):
            for code in ('icode', 'icodeb'):
                for c in ctxs:
                    if pre is None:
                        C.emit('E:none:%s' % code, c, lambda: ([V[code](), V['p1']()], 1, gap))
                    else:
                        C.emit('E:%s:%s' % (pre, code), c, lambda: ([V[pre](), V[code](), V['p1']()], [gap, 1], ()))

    # F. a fenced code block / HTML block still open at the end of its container
    for op in (('fence', '```', 'code'), ('fence', '~~~', 'x', '', 'y'), ('html', '<pre>', 'x'),
               ('html', '<!-- c', 'd')):
        for pre in ((), ('p1',), ('def2',)):
            for c in ctxs:
                for fo in ('p1', 'atx', 'fence', 'table', 'quote', 'olist', 'eof'):
                    for ag in (1, 2, 3):
                        if c != 'top':
                            C.emit('F:%s:%s:%d' % (op[1], fo, ag), c, lambda: (
                                [V[x]() for x in pre] + [leaf(*op, tag='open')], 1, (),
                                [EOF() if fo == 'eof' else V[fo]()], ag))
    return C.out


BIASES = [
    {'blank_start': 1.0},
    {'blank_start': 1.0, 'lazy': 0.9, 'indent': 0.7},
    {'lazy': 0.9, 'noblank': 0.9, 'blank_start': 0.0},
    {'lead': 2, 'defs': 'top', 'blank_start': 0.3},
    {'lead': 1, 'defs': 'bottom', 'blank_start': 0.0, 'lazy': 0.0},
]


def _spellings(tree, tag, nrand, nbias_rounds=1):
    sps = [docs.canonical_spelling(tree)]
    for rnd in range(nbias_rounds):
        for j, b in enumerate(BIASES):
            sps.append(docs.Spelling(seed='%s|b%d.%d' % (tag, rnd, j), bias=b))
    sps.extend(docs.spellings(tree, tag, nrand))
    return sps


def _trees(unit):
    kind = unit[0]
    if kind == 'hand':
        for i, t in enumerate(hand_trees()):
            yield 'h%d' % i, docs.number(t), 8, 8
    elif kind == 'enum':
        _, mb, md, k, n = unit
        for i, t in enumerate(docs.enumerate_trees(mb, md)):
            if i % n == k:
                yield 'e%d' % i, t, 1, 1
    else:
        _, mb, md, seed, start, count = unit
        for i, t in enumerate(docs.gen_trees(mb, md, seed, count, start=start), start):
            yield 'r%d' % i, t, 1, 0


def parse_only(text):
    use_repo()
    from mistletoe import Document, HtmlRenderer
    with HtmlRenderer():                 # HtmlBlock is a block token only while it is active
        return Document(text), None


def _work_lines(unit, res):
    _, k, n = unit
    res['lines_by_family'] = {}
    res['shape_samples'] = {}
    seen = set()
    for tag, text, exp in line_docs(k, n):
        if text in seen:
            continue
        seen.add(text)
        fam = tag.split(':', 1)[0]
        st = res['lines_by_family'].setdefault(fam, [0, 0])
        res['evaluations'] += 1
        status, ncmp, detail = lcheck(text, exp)
        res['contract_evaluations'] += 1 + ncmp
        if status == 'shape':
            res['skipped'] += 1
            res['skipped_shape'] += 1
            st[1] += 1
            key = tag.split('|')[0].split(':')[0] + ':' + detail.split(':')[-1].strip()
            smp = res['shape_samples'].setdefault(key, [0, text, detail])
            smp[0] += 1
            if len(text) < len(smp[1]):
                smp[1], smp[2] = text, detail
            continue
        st[0] += 1
        res['checked'] += 1
        if ncmp > 2:
            res['hashes'].add(hashlib.md5(text.encode()).digest()[:8])
        if status == 'ok':
            if len(res['samples']) < 1 and ncmp > 4:
                res['samples'].append({'input': text, 'directed': tag})
            continue
        entry = {'key': '%s|%s' % (status, text), 'contract': status, 'input': text,
                 'observed': detail, 'directed': tag,
                 'expected': 'token.line_number == line on which the block was written',
                 'replay': 'from mistletoe import Document, HtmlRenderer\n'
                           'with HtmlRenderer(): d = Document(%r)\n'
                           '# walk d.children and print (type(t).__name__, t.line_number)' % text}
        cls = lclassify(text, detail) if status == 'c13' else 'unclassified'
        entry['class'] = cls
        res['by_class'][cls] = res['by_class'].get(cls, 0) + 1
        res['failures_total'] += 1
        res['failures'].append(entry)
        if len(res['failures']) > 2 * MAX_FAILURES:
            res['failures'].sort(key=lambda f: (len(f['input']), f['input']))
            del res['failures'][MAX_FAILURES:]
    res['failures'].sort(key=lambda f: (len(f['input']), f['input']))
    del res['failures'][MAX_FAILURES:]
    return res


def _work(arg):
    unit, seed = arg
    use_repo()
    res = {'evaluations': 0, 'contract_evaluations': 0, 'failures': [], 'samples': [],
           'hashes': set(), 'by_class': {}, 'failures_total': 0, 'skipped': 0, 'skipped_shape': 0, 'checked': 0}
    if unit[0] == 'lines':
        return _work_lines(unit, res)
    for name, tree, nrand, nbias in _trees(unit):
        nt = docs.tree_depth(tree) >= 2 or len(docs.nodefs(tree)) >= 2
        seen_here = set()
        for sp in _spellings(tree, '%d|%s' % (seed, name), nrand, nbias):
            w = docs.write(tree, sp)
            if w.text in seen_here:
                continue
            seen_here.add(w.text)
            res['evaluations'] += 1
            status, ncmp, detail = check(w)
            res['contract_evaluations'] += 1 + ncmp
            if status in ('shape', 'c03'):
                res['skipped'] += 1
                res['skipped_shape'] += status == 'shape'
                continue
            res['checked'] += 1
            if nt:
                res['hashes'].add(hashlib.md5(w.text.encode()).digest()[:8])
            if status == 'ok':
                if len(res['samples']) < 2 and nt:
                    res['samples'].append({'input': w.text,
                                           'lines': {str(k): v for k, v in sorted(w.lines.items())}})
                continue
            entry = {'key': '%s|%s' % (status, w.text), 'contract': status, 'input': w.text,
                     'observed': detail, 'spelling': repr(sp),
                     'expected': 'token.line_number == line on which the generator wrote the block',
                     'replay': 'from mistletoe import Document, HtmlRenderer\n'
                               'with HtmlRenderer(): d = Document(%r)\n'
                               '# walk d.children and print (type(t).__name__, t.line_number)' % w.text}
            cls = 'unclassified'
            if status == 'c13':
                cls = classify(w, detail)
                try:
                    t2, sp2, w2 = shrink(tree, sp, _fails, budget=200)
                    entry['minimal'] = w2.text
                    entry['minimal_observed'] = check(w2)[2]
                    if cls == 'unclassified':
                        cls = classify(w2, entry['minimal_observed'])
                except Exception as e:          # best effort
                    entry['shrink_error'] = repr(e)
            entry['class'] = cls
            res['by_class'][cls] = res['by_class'].get(cls, 0) + 1
            res['failures_total'] += 1
            res['failures'].append(entry)
        if len(res['failures']) > 2 * MAX_FAILURES:
            res['failures'].sort(key=lambda f: (len(f['input']), f['input']))
            del res['failures'][MAX_FAILURES:]
    res['failures'].sort(key=lambda f: (len(f['input']), f['input']))
    del res['failures'][MAX_FAILURES:]
    return res


def run(tier, seed, workers):
    workers = max(1, workers)
    if tier == 'quick':
        enum, rand = (3, 2), (8, 3, 1500)
    else:
        enum, rand = (3, 2), (40, 4, 25000)
    nchunks = workers * 4
    units = [('hand',)] + [('enum', enum[0], enum[1], k, nchunks) for k in range(nchunks)]
    nlines = workers * 4
    units += [('lines', k, nlines) for k in range(nlines)]
    per = max(1, rand[2] // (workers * 8))
    for start in range(0, rand[2], per):
        units.append(('rand', rand[0], rand[1], seed, start, min(per, rand[2] - start)))
    parts = pool_map(_work, [(u, seed) for u in units], workers)
    out = {'evaluations': 0, 'contract_evaluations': 0, 'failures': [], 'samples': []}
    hashes, by_class, total, skipped, checked, sshape = set(), {}, 0, 0, 0, 0
    fam, shp = {}, {}
    for p in parts:
        for k, v in p.get('lines_by_family', {}).items():
            t = fam.setdefault(k, [0, 0])
            t[0] += v[0]
            t[1] += v[1]
        for k, v in p.get('shape_samples', {}).items():
            t = shp.setdefault(k, [0, v[1], v[2]])
            t[0] += v[0]
            if (len(v[1]), v[1]) < (len(t[1]), t[1]):
                t[1], t[2] = v[1], v[2]
        out['evaluations'] += p['evaluations']
        out['contract_evaluations'] += p['contract_evaluations']
        out['failures'].extend(p['failures'])
        hashes |= p['hashes']
        total += p['failures_total']
        skipped += p['skipped']
        sshape += p['skipped_shape']
        checked += p['checked']
        for k, v in p['by_class'].items():
            by_class[k] = by_class.get(k, 0) + v
        if len(out['samples']) < 6:
            out['samples'].extend(p['samples'][:1])
    uniq = {}
    for f in out['failures']:
        uniq.setdefault(f['key'], f)
    fl = sorted(uniq.values(), key=lambda f: (len(f['input']), f['input']))
    out['failures'] = fl[:MAX_FAILURES]
    out['failures_total'] = total
    out['failures_by_class'] = dict(sorted(by_class.items(), key=lambda kv: -kv[1]))
    out['skipped_c03_failure'] = skipped
    out['skipped_shape_mismatch'] = sshape
    out['checked'] = checked
    out['directed_by_family'] = {k: {'checked': v[0], 'skipped_shape_mismatch': v[1]} for k, v in sorted(fam.items())}
    out['directed_shape_mismatch_samples'] = {k: {'count': v[0], 'smallest_input': v[1], 'detail': v[2]}
                                              for k, v in sorted(shp.items())}
    out['distinct_nontrivial'] = len(hashes)
    out['exhaustive'] = False
    out['domain'] = (
        'DOCS with recorded start lines: (a) %d hand-built trees (item starting with a blank line, '
        'lazy lines, definitions before/between blocks, quote-in-list-in-quote, tables in '
        'containers) x (canonical + 8 rounds of %d biased spellings + 8 seeded); (b) all valid '
        'trees with <= %d blocks, nesting <= %d over the reduced vocabulary x (canonical + %d '
        'biased [blank-start items, lazy lines, leading blank lines, definitions moved to '
        'top/bottom] + 1 seeded spelling); (c) %d seeded random trees (seed %d), <= %d blocks, '
        'nesting <= %d x (canonical + 1 seeded spelling); (d) LINES, %d directed documents written '
        'line by line (same for every seed), vocabulary of %d blocks (1-3 line paragraphs, ATX, '
        'setext with 1-4 content lines, ***, closed/unclosed fences and HTML blocks with blank lines '
        'inside, indented code with blank and whitespace-only lines inside, tables, empty/lazy/'
        'two-block quotes, tight/loose/nested/blank-start/empty-item lists, 1-3 line link '
        'definitions incl. one whose second line starts a paragraph) in %d contexts (top level, '
        'quote, list item first/second/blank-start/ordered, quote-in-list, list-in-quote, 3 deep, '
        'lazy variants): A tables with identical body rows / rows equal to the header or the '
        'delimiter row / spacer, short, over-long, astral, pipe-less rows x %d prefixes (blank '
        'lines, definitions, blocks inside the container) x 4 followers; B %d list shapes (nesting '
        '<= 3, blank-start items, late children) followed by 1-3 blank or whitespace-only lines and '
        'a non-list block, another list type or the end of input, inside and behind every '
        'context; C all ordered pairs of the vocabulary (identical siblings included) with 0-3 '
        'blank lines between them in every context, x-y-x triples, lists of 3 identical items; '
        'D 1-5 blank / whitespace-only lines at the start of the input and of quotes; E '
        'whitespace-only lines of >= 4 columns before indented code; F blocks left open at the '
        'end of their container; document end "\\n", none or 3 line ends'
        % (len(hand_trees()), len(BIASES), enum[0], enum[1], len(BIASES), rand[2], seed,
           rand[0], rand[1], sum(v[0] + v[1] for v in fam.values()), len(VOCAB), len(CTXS), 12,
           len(_list_shapes())))
    out['rule'] = (
        'Document(write(tree, spelling).text) inside an active HtmlRenderer; every block token '
        'matched structurally to a tree node must carry the line the writer recorded for that '
        'node. Precondition: the rendered HTML equals the HTML of the tree (C03 holds for the case); '
        'other cases are skipped and counted in skipped_c03_failure (of which '
        'skipped_shape_mismatch would also fail the structural matching); `checked` cases were compared. Non-trivial: the tree '
        'nests or has >= 2 blocks; distinct = distinct written texts among checked cases. '
        'LINES documents: the expected token shape (kinds and nesting, cells of a row not counted) '
        'and the line of every block come from the writer; precondition: the token tree has that '
        'shape, otherwise the case is skipped as a parsing (C03) matter and counted in '
        'skipped_shape_mismatch / directed_by_family, smallest inputs per cause in '
        'directed_shape_mismatch_samples; every cell token of a row must report the row\'s line; '
        'non-trivial: >= 2 block tokens compared. '
        'contract_evaluations counts one per compared token plus one noraise per case.')
    return out
