"""C13 (bounded tier): every block token reports the source line on which it starts.

Runtime contract on the real `Document` of the tree under test, for (tree, spelling) pairs of the
DOCS generator (runtime/docs.py), whose writer records the 1-based line on which it wrote the
first character of every block:

    noraise:  Document(written.text) raises nothing
    c13:      for every block token at any depth whose kind maps to a tree node (paragraph, ATX and
              setext heading, fenced and indented code, quote, list, list item, table, table row,
              table cell, thematic break, HTML block):
                  token.line_number == written.lines[node.id]

Tokens are matched to nodes structurally (same traversal order, link definitions skipped).  If
the document does not parse to the tree it was written from (rendered HTML differs, or the token
shape differs) the case is a C03 failure, not a C13 one: it is skipped and counted in
`skipped_c03_failure`.
"""
import hashlib

from runtime.common import use_repo, pool_map
from runtime import docs
from runtime.docs import Node, T
from runtime.docs_shrink import shrink

MAX_FAILURES = 400

KIND = {'Paragraph': 'para', 'Heading': 'atx', 'SetextHeading': 'setext', 'ThematicBreak': 'hr',
        'CodeFence': 'fence', 'BlockCode': 'icode', 'Quote': 'quote', 'List': 'list',
        'Table': 'table', 'HtmlBlock': 'html'}


class Shape(Exception):
    pass


def parse(text):
    """-> (Document, rendered html)"""
    use_repo()
    from mistletoe import Document, HtmlRenderer
    with HtmlRenderer() as r:            # HtmlBlock is a block token only while it is active
        doc = Document(text)
        return doc, r.render(doc)


def pairs(tokens, nodes, path, out):
    """Append (path, kind, token, node) for all matched block tokens; raise Shape on mismatch."""
    nodes = docs.nodefs(nodes)
    if len(tokens) != len(nodes):
        raise Shape('%s: %d tokens for %d nodes' % (path, len(tokens), len(nodes)))
    for i, (tok, n) in enumerate(zip(tokens, nodes)):
        p = '%s/%s[%d]' % (path, n.kind, i)
        name = type(tok).__name__
        if KIND.get(name) != n.kind:
            raise Shape('%s: token %s for node %s' % (p, name, n.kind))
        out.append((p, n.kind, tok, n))
        if n.kind == 'quote':
            pairs(tok.children, n.children, p, out)
        elif n.kind == 'list':
            if (tok.start is not None) != n.ordered or len(tok.children) != len(n.items):
                raise Shape('%s: list shape' % p)
            for k, (ti, it) in enumerate(zip(tok.children, n.items)):
                pi = '%s/item[%d]' % (p, k)
                if type(ti).__name__ != 'ListItem':
                    raise Shape(pi)
                out.append((pi, 'item', ti, it))
                pairs(ti.children, it.children, pi, out)
        elif n.kind == 'table':
            rows = [(getattr(tok, 'header', None), n.header)] + list(zip(tok.children, n.rows))
            if len(tok.children) != len(n.rows) or rows[0][0] is None:
                raise Shape('%s: table rows' % p)
            for k, (tr, r) in enumerate(rows):
                pr = '%s/row[%d]' % (p, k)
                if type(tr).__name__ != 'TableRow' or len(tr.children) != len(r.cells):
                    raise Shape(pr)
                out.append((pr, 'row', tr, r))
                for j, (tc, c) in enumerate(zip(tr.children, r.cells)):
                    out.append(('%s/cell[%d]' % (pr, j), 'cell', tc, c))


def check(w):
    """-> ('ok'|'shape'|'noraise'|'c13', n_compared, detail)"""
    try:
        doc, html = parse(w.text)
    except Exception as e:               # noqa
        return 'noraise', 0, '%s: %s' % (type(e).__name__, e)
    # precondition: the document parsed to the tree it was written from (otherwise it is a C03
    # failure and token/node matching would be meaningless even if the shapes happen to agree);
    # the renderer-only deviation "<tbody></tbody> for a table without rows" is tolerated
    got = docs.normalize_html(html).replace('<tbody></tbody>', '')
    if got != docs.normalize_html(docs.serialise_html(w.tree)):
        return 'c03', 0, 'rendered HTML differs from the tree'
    out = []
    try:
        pairs(doc.children, w.tree, '', out)
    except Shape as e:
        return 'shape', 0, str(e)
    except Exception as e:               # noqa: malformed token tree
        return 'shape', 0, 'error while matching: %r' % (e,)
    bad = []
    for p, kind, tok, n in out:
        exp = w.lines.get(n.id)
        got = getattr(tok, 'line_number', None)
        if got != exp:
            bad.append({'path': p, 'expected_line': exp, 'observed_line': got})
    if getattr(doc, 'line_number', None) != 1:
        bad.append({'path': '/', 'expected_line': 1, 'observed_line': getattr(doc, 'line_number', None)})
    return ('c13' if bad else 'ok'), len(out) + 1, bad


def _fails(w):
    return check(w)[0] == 'c13'


def blank_start_items(w):
    return w.blank_start_items


def classify(w, bad):
    """'listitem-blank-start-children-one-line-early' when every wrong token lies inside an item
    that begins with a blank line and is early by the number of such enclosing items."""
    bs = blank_start_items(w)
    if not bs:
        return 'unclassified'
    depth = {}

    def walk(bs_, d, path):
        for i, b in enumerate(docs.nodefs(bs_)):
            p = '%s/%s[%d]' % (path, b.kind, i)
            depth[p] = d
            if b.kind == 'quote':
                walk(b.children, d, p)
            elif b.kind == 'list':
                for k, it in enumerate(b.items):
                    pi = '%s/item[%d]' % (p, k)
                    depth[pi] = d
                    walk(it.children, d + (1 if it.id in bs else 0), pi)
            elif b.kind == 'table':
                for k in range(len(b.rows) + 1):
                    pr = '%s/row[%d]' % (p, k)
                    depth[pr] = d
                    for j in range(len(b.aligns)):
                        depth['%s/cell[%d]' % (pr, j)] = d
    walk(w.tree, 0, '')
    for m in bad:
        d = depth.get(m['path'])
        if not d or m['observed_line'] is None or m['expected_line'] - m['observed_line'] != d:
            return 'unclassified'
    return 'listitem-blank-start-children-one-line-early'


# ------------------------------------------------------------------------------------------
# hand-built trees for the situations the property names explicitly

def P(*words):
    inl = []
    for i, wd in enumerate(words):
        if i:
            inl.append(Node('soft'))
        inl.append(T(wd))
    return Node('para', inl=inl)


def UL(*items, tight=True):
    return Node('list', ordered=False, tight=tight, start=None,
                items=[Node('item', children=list(ch)) for ch in items])


def OL(start, *items, tight=True):
    return Node('list', ordered=True, tight=tight, start=start,
                items=[Node('item', children=list(ch)) for ch in items])


def Q(*ch):
    return Node('quote', children=list(ch))


def D(label):
    return Node('linkdef', label=label, dest='/url', title='')


def TBL():
    def row(*c):
        return Node('row', cells=[Node('cell', inl=[T(x)]) for x in c])
    return Node('table', header=row('a', 'b'), aligns=[None, 'center'], rows=[row('c', 'd'), row('e', 'f')])


def hand_trees():
    F = lambda: Node('fence', info='py', lines=['x', '', 'y'])       # noqa: E731
    H = lambda: Node('atx', level=2, inl=[T('head')])                # noqa: E731
    return [
        [UL([P('foo')])],                                            # '-\n  foo' when blank-start
        [UL([P('foo', 'bar')], [P('baz')])],
        [UL([P('foo'), F()], [H(), P('x')], tight=False)],
        [OL(7, [P('a', 'b', 'c')], [Node('icode', lines=['code'])], tight=False)],
        [Q(P('foo', 'bar', 'baz'))],                                 # lazy lines
        [Q(UL([Q(P('deep', 'lazy'), H())], [P('x', 'y')]))],         # quote-in-list-in-quote
        [Q(Q(P('a', 'b')), P('c', 'd'))],
        [D('foo'), P('one'), D('bar'), D('baz'), H(), D('qux'), P('two', 'three')],
        [D('foo'), Q(D('bar'), P('in'), D('baz'), F()), UL([D('q'), P('item')], [P('i2')])],
        [P('top'), TBL(), Q(TBL()), UL([TBL()], [P('z')], tight=False)],
        [Node('hr'), Node('setext', level=1, inl=[T('title')]), Node('html', text=docs.HTML_FORMS[0]),
         Node('icode', lines=['a', '', 'b']), P('end')],
        [UL([UL([UL([P('deep', 'er')])])]), P('after')],
        [OL(1, [Q(UL([P('a', 'b')], [F()]))], [P('c')], tight=False)],
        [UL([Node('hr')], [F()], [Node('icode', lines=['baz'])], [H()], [Q(P('q'))])],
    ]


BIASES = [
    {'blank_start': 1.0},
    {'blank_start': 1.0, 'lazy': 0.9, 'indent': 0.7},
    {'lazy': 0.9, 'noblank': 0.9, 'blank_start': 0.0},
    {'lead': 2, 'defs': 'top', 'blank_start': 0.3},
    {'lead': 1, 'defs': 'bottom', 'blank_start': 0.0, 'lazy': 0.0},
]


def _spellings(tree, tag, nrand, nbias_rounds=1):
    sps = [docs.canonical_spelling(tree)]
    for rnd in range(nbias_rounds):
        for j, b in enumerate(BIASES):
            sps.append(docs.Spelling(seed='%s|b%d.%d' % (tag, rnd, j), bias=b))
    sps.extend(docs.spellings(tree, tag, nrand))
    return sps


def _trees(unit):
    kind = unit[0]
    if kind == 'hand':
        for i, t in enumerate(hand_trees()):
            yield 'h%d' % i, docs.number(t), 8, 8
    elif kind == 'enum':
        _, mb, md, k, n = unit
        for i, t in enumerate(docs.enumerate_trees(mb, md)):
            if i % n == k:
                yield 'e%d' % i, t, 1, 1
    else:
        _, mb, md, seed, start, count = unit
        for i, t in enumerate(docs.gen_trees(mb, md, seed, count, start=start), start):
            yield 'r%d' % i, t, 1, 0


def _work(arg):
    unit, seed = arg
    use_repo()
    res = {'evaluations': 0, 'contract_evaluations': 0, 'failures': [], 'samples': [],
           'hashes': set(), 'by_class': {}, 'failures_total': 0, 'skipped': 0, 'skipped_shape': 0, 'checked': 0}
    for name, tree, nrand, nbias in _trees(unit):
        nt = docs.tree_depth(tree) >= 2 or len(docs.nodefs(tree)) >= 2
        seen_here = set()
        for sp in _spellings(tree, '%d|%s' % (seed, name), nrand, nbias):
            w = docs.write(tree, sp)
            if w.text in seen_here:
                continue
            seen_here.add(w.text)
            res['evaluations'] += 1
            status, ncmp, detail = check(w)
            res['contract_evaluations'] += 1 + ncmp
            if status in ('shape', 'c03'):
                res['skipped'] += 1
                res['skipped_shape'] += status == 'shape'
                continue
            res['checked'] += 1
            if nt:
                res['hashes'].add(hashlib.md5(w.text.encode()).digest()[:8])
            if status == 'ok':
                if len(res['samples']) < 2 and nt:
                    res['samples'].append({'input': w.text,
                                           'lines': {str(k): v for k, v in sorted(w.lines.items())}})
                continue
            entry = {'key': '%s|%s' % (status, w.text), 'contract': status, 'input': w.text,
                     'observed': detail, 'spelling': repr(sp),
                     'expected': 'token.line_number == line on which the generator wrote the block',
                     'replay': 'from mistletoe import Document, HtmlRenderer\n'
                               'with HtmlRenderer(): d = Document(%r)\n'
                               '# walk d.children and print (type(t).__name__, t.line_number)' % w.text}
            cls = 'unclassified'
            if status == 'c13':
                cls = classify(w, detail)
                try:
                    t2, sp2, w2 = shrink(tree, sp, _fails, budget=200)
                    entry['minimal'] = w2.text
                    entry['minimal_observed'] = check(w2)[2]
                    if cls == 'unclassified':
                        cls = classify(w2, entry['minimal_observed'])
                except Exception as e:          # best effort
                    entry['shrink_error'] = repr(e)
            entry['class'] = cls
            res['by_class'][cls] = res['by_class'].get(cls, 0) + 1
            res['failures_total'] += 1
            res['failures'].append(entry)
        if len(res['failures']) > 2 * MAX_FAILURES:
            res['failures'].sort(key=lambda f: (len(f['input']), f['input']))
            del res['failures'][MAX_FAILURES:]
    res['failures'].sort(key=lambda f: (len(f['input']), f['input']))
    del res['failures'][MAX_FAILURES:]
    return res


def run(tier, seed, workers):
    workers = max(1, workers)
    if tier == 'quick':
        enum, rand = (3, 2), (8, 3, 1500)
    else:
        enum, rand = (3, 2), (40, 4, 25000)
    nchunks = workers * 4
    units = [('hand',)] + [('enum', enum[0], enum[1], k, nchunks) for k in range(nchunks)]
    per = max(1, rand[2] // (workers * 8))
    for start in range(0, rand[2], per):
        units.append(('rand', rand[0], rand[1], seed, start, min(per, rand[2] - start)))
    parts = pool_map(_work, [(u, seed) for u in units], workers)
    out = {'evaluations': 0, 'contract_evaluations': 0, 'failures': [], 'samples': []}
    hashes, by_class, total, skipped, checked, sshape = set(), {}, 0, 0, 0, 0
    for p in parts:
        out['evaluations'] += p['evaluations']
        out['contract_evaluations'] += p['contract_evaluations']
        out['failures'].extend(p['failures'])
        hashes |= p['hashes']
        total += p['failures_total']
        skipped += p['skipped']
        sshape += p['skipped_shape']
        checked += p['checked']
        for k, v in p['by_class'].items():
            by_class[k] = by_class.get(k, 0) + v
        if len(out['samples']) < 6:
            out['samples'].extend(p['samples'][:1])
    uniq = {}
    for f in out['failures']:
        uniq.setdefault(f['key'], f)
    fl = sorted(uniq.values(), key=lambda f: (len(f['input']), f['input']))
    out['failures'] = fl[:MAX_FAILURES]
    out['failures_total'] = total
    out['failures_by_class'] = dict(sorted(by_class.items(), key=lambda kv: -kv[1]))
    out['skipped_c03_failure'] = skipped
    out['skipped_shape_mismatch'] = sshape
    out['checked'] = checked
    out['distinct_nontrivial'] = len(hashes)
    out['exhaustive'] = False
    out['domain'] = (
        'DOCS with recorded start lines: (a) %d hand-built trees (item starting with a blank line, '
        'lazy lines, definitions before/between blocks, quote-in-list-in-quote, tables in '
        'containers) x (canonical + 8 rounds of %d biased spellings + 8 seeded); (b) all valid '
        'trees with <= %d blocks, nesting <= %d over the reduced vocabulary x (canonical + %d '
        'biased [blank-start items, lazy lines, leading blank lines, definitions moved to '
        'top/bottom] + 1 seeded spelling); (c) %d seeded random trees (seed %d), <= %d blocks, '
        'nesting <= %d x (canonical + 1 seeded spelling)'
        % (len(hand_trees()), len(BIASES), enum[0], enum[1], len(BIASES), rand[2], seed,
           rand[0], rand[1]))
    out['rule'] = (
        'Document(write(tree, spelling).text) inside an active HtmlRenderer; every block token '
        'matched structurally to a tree node must carry the line the writer recorded for that '
        'node. Precondition: the rendered HTML equals the HTML of the tree (C03 holds for the case); '
        'other cases are skipped and counted in skipped_c03_failure (of which '
        'skipped_shape_mismatch would also fail the structural matching); `checked` cases were compared. Non-trivial: the tree '
        'nests or has >= 2 blocks; distinct = distinct written texts among checked cases. '
        'contract_evaluations counts one per compared token plus one noraise per case.')
    return out
