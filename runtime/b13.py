"""C13 (bounded tier): every block token reports the source line on which it starts.

Runtime contract on the real `Document` of the tree under test, for (tree, spelling) pairs of the
DOCS generator (runtime/docs.py), whose writer records the 1-based line on which it wrote the
first character of every block:

    noraise:  Document(written.text) raises nothing
    c13:      for every block token at any depth whose kind maps to a tree node (paragraph, ATX and
              setext heading, fenced and indented code, quote, list, list item, table, table row,
              table cell, thematic break, HTML block):
                  token.line_number == written.lines[node.id]

Tokens are matched to nodes structurally (same traversal order, link definitions skipped).  If
the document does not parse to the tree it was written from (rendered HTML differs, or the token
shape differs) the case is a C03 failure, not a C13 one: it is skipped and counted in
`skipped_c03_failure`.
"""
import hashlib

from runtime.common import use_repo, pool_map
from runtime import docs
from runtime.docs import Node, T
from runtime.docs_shrink import shrink

MAX_FAILURES = 400

KIND = {'Paragraph': 'para', 'Heading': 'atx', 'SetextHeading': 'setext', 'ThematicBreak': 'hr',
        'CodeFence': 'fence', 'BlockCode': 'icode', 'Quote': 'quote', 'List': 'list',
        'Table': 'table', 'HtmlBlock': 'html'}


class Shape(Exception):
    pass


def parse(text):
    """-> (Document, rendered html)"""
    use_repo()
    from mistletoe import Document, HtmlRenderer
    with HtmlRenderer() as r:            # HtmlBlock is a block token only while it is active
        doc = Document(text)
        return doc, r.render(doc)


def pairs(tokens, nodes, path, out):
    """Append (path, kind, token, node) for all matched block tokens; raise Shape on mismatch."""
    nodes = docs.nodefs(nodes)
    if len(tokens) != len(nodes):
        raise Shape('%s: %d tokens for %d nodes' % (path, len(tokens), len(nodes)))
    for i, (tok, n) in enumerate(zip(tokens, nodes)):
        p = '%s/%s[%d]' % (path, n.kind, i)
        name = type(tok).__name__
        if KIND.get(name) != n.kind:
            raise Shape('%s: token %s for node %s' % (p, name, n.kind))
        out.append((p, n.kind, tok, n))
        if n.kind == 'quote':
            pairs(tok.children, n.children, p, out)
        elif n.kind == 'list':
            if (tok.start is not None) != n.ordered or len(tok.children) != len(n.items):
                raise Shape('%s: list shape' % p)
            for k, (ti, it) in enumerate(zip(tok.children, n.items)):
                pi = '%s/item[%d]' % (p, k)
                if type(ti).__name__ != 'ListItem':
                    raise Shape(pi)
                out.append((pi, 'item', ti, it))
                pairs(ti.children, it.children, pi, out)
        elif n.kind == 'table':
            rows = [(getattr(tok, 'header', None), n.header)] + list(zip(tok.children, n.rows))
            if len(tok.children) != len(n.rows) or rows[0][0] is None:
                raise Shape('%s: table rows' % p)
            for k, (tr, r) in enumerate(rows):
                pr = '%s/row[%d]' % (p, k)
                if type(tr).__name__ != 'TableRow' or len(tr.children) != len(r.cells):
                    raise Shape(pr)
                out.append((pr, 'row', tr, r))
                for j, (tc, c) in enumerate(zip(tr.children, r.cells)):
                    out.append(('%s/cell[%d]' % (pr, j), 'cell', tc, c))


def check(w):
    """-> ('ok'|'shape'|'noraise'|'c13', n_compared, detail)"""
    try:
        doc, html = parse(w.text)
    except Exception as e:               # noqa
        return 'noraise', 0, '%s: %s' % (type(e).__name__, e)
    # precondition: the document parsed to the tree it was written from (otherwise it is a C03
    # failure and token/node matching would be meaningless even if the shapes happen to agree);
    # the renderer-only deviation "<tbody></tbody> for a table without rows" is tolerated
    got = docs.normalize_html(html).replace('<tbody></tbody>', '')
    if got != docs.normalize_html(docs.serialise_html(w.tree)):
        return 'c03', 0, 'rendered HTML differs from the tree'
    out = []
    try:
        pairs(doc.children, w.tree, '', out)
    except Shape as e:
        return 'shape', 0, str(e)
    except Exception as e:               # noqa: malformed token tree
        return 'shape', 0, 'error while matching: %r' % (e,)
    bad = []
    for p, kind, tok, n in out:
        exp = w.lines.get(n.id)
        got = getattr(tok, 'line_number', None)
        if got != exp:
            bad.append({'path': p, 'expected_line': exp, 'observed_line': got})
    if getattr(doc, 'line_number', None) != 1:
        bad.append({'path': '/', 'expected_line': 1, 'observed_line': getattr(doc, 'line_number', None)})
    return ('c13' if bad else 'ok'), len(out) + 1, bad


def _fails(w):
    return check(w)[0] == 'c13'


def blank_start_items(w):
    return w.blank_start_items


def classify(w, bad):
    """'listitem-blank-start-children-one-line-early' when every wrong token lies inside an item
    that begins with a blank line and is early by the number of such enclosing items."""
    bs = blank_start_items(w)
    if not bs:
        return 'unclassified'
    depth = {}

    def walk(bs_, d, path):
        for i, b in enumerate(docs.nodefs(bs_)):
            p = '%s/%s[%d]' % (path, b.kind, i)
            depth[p] = d
            if b.kind == 'quote':
                walk(b.children, d, p)
            elif b.kind == 'list':
                for k, it in enumerate(b.items):
                    pi = '%s/item[%d]' % (p, k)
                    depth[pi] = d
                    walk(it.children, d + (1 if it.id in bs else 0), pi)
            elif b.kind == 'table':
                for k in range(len(b.rows) + 1):
                    pr = '%s/row[%d]' % (p, k)
                    depth[pr] = d
                    for j in range(len(b.aligns)):
                        depth['%s/cell[%d]' % (pr, j)] = d
    walk(w.tree, 0, '')
    for m in bad:
        d = depth.get(m['path'])
        if not d or m['observed_line'] is None or m['expected_line'] - m['observed_line'] != d:
            return 'unclassified'
    return 'listitem-blank-start-children-one-line-early'


# ------------------------------------------------------------------------------------------
# hand-built trees for the situations the property names explicitly

def P(*words):
    inl = []
    for i, wd in enumerate(words):
        if i:
            inl.append(Node('soft'))
        inl.append(T(wd))
    return Node('para', inl=inl)


def UL(*items, tight=True):
    return Node('list', ordered=False, tight=tight, start=None,
                items=[Node('item', children=list(ch)) for ch in items])


def OL(start, *items, tight=True):
    return Node('list', ordered=True, tight=tight, start=start,
                items=[Node('item', children=list(ch)) for ch in items])


def Q(*ch):
    return Node('quote', children=list(ch))


def D(label):
    return Node('linkdef', label=label, dest='/url', title='')


def TBL():
    def row(*c):
        return Node('row', cells=[Node('cell', inl=[T(x)]) for x in c])
    return Node('table', header=row('a', 'b'), aligns=[None, 'center'], rows=[row('c', 'd'), row('e', 'f')])


def hand_trees():
    F = lambda: Node('fence', info='py', lines=['x', '', 'y'])       # noqa: E731
    H = lambda: Node('atx', level=2, inl=[T('head')])                # noqa: E731
    return [
        [UL([P('foo')])],                                            # '-\n  foo' when blank-start
        [UL([P('foo', 'bar')], [P('baz')])],
        [UL([P('foo'), F()], [H(), P('x')], tight=False)],
        [OL(7, [P('a', 'b', 'c')], [Node('icode', lines=['code'])], tight=False)],
        [Q(P('foo', 'bar', 'baz'))],                                 # lazy lines
        [Q(UL([Q(P('deep', 'lazy'), H())], [P('x', 'y')]))],         # quote-in-list-in-quote
        [Q(Q(P('a', 'b')), P('c', 'd'))],
        [D('foo'), P('one'), D('bar'), D('baz'), H(), D('qux'), P('two', 'three')],
        [D('foo'), Q(D('bar'), P('in'), D('baz'), F()), UL([D('q'), P('item')], [P('i2')])],
        [P('top'), TBL(), Q(TBL()), UL([TBL()], [P('z')], tight=False)],
        [Node('hr'), Node('setext', level=1, inl=[T('title')]), Node('html', text=docs.HTML_FORMS[0]),
         Node('icode', lines=['a', '', 'b']), P('end')],
        [UL([UL([UL([P('deep', 'er')])])]), P('after')],
        [OL(1, [Q(UL([P('a', 'b')], [F()]))], [P('c')], tight=False)],
        [UL([Node('hr')], [F()], [Node('icode', lines=['baz'])], [H()], [Q(P('q'))])],
    ]


# ------------------------------------------------------------------------------------------
# LINES: directed documents written line by line.  A block is a list of source lines (relative to
# its container) plus the expected token shape with relative start lines; containers prefix the
# lines of their content and shift nothing else, so the writer knows the line of every block
# without any parser.  This domain adds what the DOCS writer cannot spell: identical sibling
# blocks and table rows, spacer / short / over-long rows, runs of >= 2 blank lines (also
# whitespace-only ones) between blocks, after list items and at the start of the input, setext
# headings with multi-line content, multi-line link reference definitions followed directly by
# text, whitespace-only lines in front of an indented code block.

NAMES = dict(KIND, ListItem='item', TableRow='row', TableCell='cell')


class Blk:
    __slots__ = ('lines', 'exp', 'lazy', 'tag')

    def __init__(self, lines, exp, lazy=(), tag=''):
        self.lines = lines      # source lines without terminators
        self.exp = exp          # [(kind, relative line, children | None)]; None: cells of a row
        self.lazy = set(lazy)   # paragraph continuation lines whose container prefixes may be dropped
        self.tag = tag


def _shift(exp, d):
    return [(k, o + d, None if ch is None else _shift(ch, d)) for k, o, ch in exp]


def leaf(kind, *lines, tag=None):
    return Blk(list(lines), [(kind, 0, [])], tag=tag or kind)


def para(*lines):
    return Blk(list(lines), [('para', 0, [])], range(1, len(lines)), 'para')


def defn(*lines):
    return Blk(list(lines), [], tag='def')


def table(*lines):
    """lines[0] header row, lines[1] delimiter row, then the body rows"""
    rows = [('row', 0, None)] + [('row', k, None) for k in range(2, len(lines))]
    return Blk(list(lines), [('table', 0, rows)], tag='table')


def seq(blocks, gaps=1, lead=()):
    """Sibling sequence; gaps: one entry (or one per gap), a count of empty lines or the list of
    blank lines themselves; lead: blank lines in front of the first block."""
    lines, exp, lazy = list(lead), [], set()
    for i, b in enumerate(blocks):
        if i:
            g = gaps[i - 1] if isinstance(gaps, (list, tuple)) else gaps
            lines.extend([''] * g if isinstance(g, int) else g)
        d = len(lines)
        lines.extend(b.lines)
        exp.extend(_shift(b.exp, d))
        lazy |= {d + j for j in b.lazy}
    return Blk(lines, exp, lazy, blocks[0].tag if len(blocks) == 1 else 'seq')


def quote(blocks, gaps=1, lead=(), lazy=False):
    inner = seq(blocks, gaps, lead) if blocks else Blk([''], [])
    lines, lz = [], set()
    for i, l in enumerate(inner.lines):
        if lazy and i in inner.lazy:
            lines.append(l)
            lz.add(i)
        else:
            lines.append('>' if l == '' else '> ' + l)
    return Blk(lines, [('quote', 0, inner.exp)], lz, 'quote')


def item(blocks, gaps=1, blank_start=False, lazy=False):
    return (seq(blocks, gaps) if blocks else None, blank_start, lazy)


def lst(items, marker='-', between=0):
    """items: results of item(); marker '-', '+' or 'N.' / 'N)' (numbered upwards); between: blank
    lines between the items."""
    lines, kids, lz = [], [], set()
    for k, (inner, bs, lazy) in enumerate(items):
        m = '%d%s' % (int(marker[:-1]) + k, marker[-1]) if marker[0].isdigit() else marker
        if k:
            lines.extend([''] * between if isinstance(between, int) else between)
        d = len(lines)
        if inner is None:
            lines.append(m)
            kids.append(('item', d, []))
            continue
        w, off = len(m) + 1, 0
        if bs:
            lines.append(m)
            off = 1
        for i, l in enumerate(inner.lines):
            if i == 0 and not bs:
                lines.append(m + ' ' + l)
            elif l == '':
                lines.append('')
            elif lazy and i in inner.lazy:
                lines.append(l)
                lz.add(d + off + i)
            else:
                lines.append(' ' * w + l)
        kids.append(('item', d, _shift(inner.exp, d + off)))
    return Blk(lines, [('list', 0, kids)], lz, 'list')


def ldoc(blocks, gaps=1, lead=(), end='\n'):
    b = seq(blocks, gaps, lead)
    return '\n'.join(b.lines) + end, _shift(b.exp, 1)


def lmatch(tokens, exp, path, out):
    """Append (path, kind, token, expected line); raise Shape when the token tree is not the
    expected one (the case then is a parsing matter, C03, not a line-number one)."""
    if len(tokens) != len(exp):
        raise Shape('%s: %d tokens for %d blocks' % (path, len(tokens), len(exp)))
    for i, (tok, (kind, line, ch)) in enumerate(zip(tokens, exp)):
        p = '%s/%s[%d]' % (path, kind, i)
        if NAMES.get(type(tok).__name__) != kind:
            raise Shape('%s: token %s for %s' % (p, type(tok).__name__, kind))
        out.append((p, kind, tok, line))
        if kind in ('quote', 'list', 'item'):
            lmatch(tok.children, ch, p, out)
        elif kind == 'table':
            rows = [getattr(tok, 'header', None)] + list(tok.children)
            if rows[0] is None or len(rows) != len(ch):
                raise Shape('%s: table rows' % p)
            for k, (tr, (_, rl, _)) in enumerate(zip(rows, ch)):
                pr = '%s/row[%d]' % (p, k)
                if type(tr).__name__ != 'TableRow':
                    raise Shape(pr)
                out.append((pr, 'row', tr, rl))
                # the number of cells of a short / over-long row is not this property's business:
                # every cell token of the row must report the row's line
                for j, tc in enumerate(tr.children):
                    if type(tc).__name__ != 'TableCell':
                        raise Shape(pr)
                    out.append(('%s/cell[%d]' % (pr, j), 'cell', tc, rl))


def lcheck(text, exp):
    """-> ('ok'|'shape'|'noraise'|'c13', n_compared, detail)"""
    try:
        doc, _ = parse(text)
    except Exception as e:               # noqa
        return 'noraise', 0, '%s: %s' % (type(e).__name__, e)
    out = []
    try:
        lmatch(doc.children, exp, '', out)
    except Shape as e:
        return 'shape', 0, str(e)
    except Exception as e:               # noqa: malformed token tree
        return 'shape', 0, 'error while matching: %r' % (e,)
    bad = [{'path': p, 'expected_line': line, 'observed_line': getattr(tok, 'line_number', None)}
           for p, kind, tok, line in out if getattr(tok, 'line_number', None) != line]
    if getattr(doc, 'line_number', None) != 1:
        bad.append({'path': '/', 'expected_line': 1, 'observed_line': getattr(doc, 'line_number', None)})
    return ('c13' if bad else 'ok'), len(out) + 1, bad


def _content(line):
    """The line without block quote markers and indentation."""
    return line.replace('>', ' ').strip(' \t')


def lclassify(text, bad):
    """'indented-code-block-starts-at-preceding-whitespace-line': the only wrong tokens are
    indented code blocks, reported on a whitespace-only (blank) line that directly precedes the
    code -- CommonMark 0.30 section 4.4: blank lines preceding an indented code block are not
    part of it."""
    src = text.split('\n')
    for m in bad:
        o, e = m['observed_line'], m['expected_line']
        if '/icode[' not in m['path'].rsplit('/', 1)[-1] + '[' or not isinstance(o, int) or not 1 <= o < e:
            return 'unclassified'
        if any(_content(src[k - 1]) != '' for k in range(o, e)):
            return 'unclassified'
        if src[o - 1].replace('>', ' ').strip('\t ') != '' or len(src[o - 1].expandtabs(4)) < 4:
            return 'unclassified'
    return 'indented-code-block-starts-at-preceding-whitespace-line'


# -- vocabulary ----------------------------------------------------------------------------

VOCAB = {
    'p1': lambda: para('aaa'),
    'p2': lambda: para('aaa', 'bbb'),
    'p3': lambda: para('foo', 'bar', 'baz'),
    'atx': lambda: leaf('atx', '# head'),
    'setext': lambda: leaf('setext', 'Title', '====='),
    'setext3': lambda: leaf('setext', 'multi', 'line title', 'third', '==='),
    'setext-': lambda: leaf('setext', 'multi', 'line', '---', tag='setext'),
    'hr': lambda: leaf('hr', '***'),
    'fence': lambda: leaf('fence', '```', 'code', '```'),
    'fenceb': lambda: leaf('fence', '~~~ py', 'x', '', '', 'y', '~~~'),
    'icode': lambda: leaf('icode', '    code'),
    'icodeb': lambda: leaf('icode', '    a', '', '      ', '    b', tag='icode'),
    'html': lambda: leaf('html', '<div>', 'hello', '</div>', tag='html6'),
    'htmlc': lambda: leaf('html', '<!-- c -->'),
    'htmlp': lambda: leaf('html', '<pre>', 'x', '', 'y', '</pre>'),
    'table': lambda: table('| a | b |', '|---|---|', '| c | d |', '| c | d |'),
    'quote': lambda: quote([para('qq')]),
    'quotez': lambda: quote([para('qq', 'lazy')], lazy=True),
    'quote2': lambda: quote([para('qq'), leaf('atx', '## h')], gaps=2),
    'list': lambda: lst([item([para('li')])]),
    'list2': lambda: lst([item([para('li')]), item([para('li')])]),
    'list2l': lambda: lst([item([para('li')]), item([para('li')])], between=1),
    'listn': lambda: lst([item([para('li'), lst([item([para('li')])], '+')], gaps=0)]),
    'listb': lambda: lst([item([para('li')], blank_start=True), item([])]),
    'olist': lambda: lst([item([para('li')]), item([para('li', 'li')])], '1.'),
    'def1': lambda: defn('[foo]: /url'),
    'def2': lambda: defn('[foo]: /url', '  "the title"'),
    'def3': lambda: defn('[foo]:', '/url', "'t'"),
    'def4': lambda: defn('[foo]: /url "multi', 'line"', '[bar]: /u2'),
    'def5': lambda: defn('[fo', 'o]: <u>'),
    # the second line is not a title: the definition ends on line 1, a paragraph starts on line 2
    'defp': lambda: Blk(['[foo]: /url', '"title" trailing'], [('para', 1, [])], tag='para'),
}
LEAVES = ['p1', 'p2', 'atx', 'setext', 'setext3', 'setext-', 'hr', 'fence', 'fenceb', 'icode', 'icodeb',
          'html', 'htmlc', 'htmlp', 'table']
CONTS = ['quote', 'quotez', 'quote2', 'list', 'list2', 'list2l', 'listn', 'listb', 'olist']
DEFS = ['def1', 'def2', 'def3', 'def4', 'def5', 'defp']

TABLES = {
    'dup': ('| a | b |', '|---|---|', '| c | d |', '| c | d |'),
    'dup5': ('| a | b |', '| --- | :-: |', '| c | d |', '| e | f |', '| c | d |', '| e | f |', '| c | d |'),
    'hdr': ('| a | b |', '|---|---|', '| a | b |', '| c | d |', '| a | b |'),
    'spacer': ('| a | b |', '|---|---|', '|  |  |', '| c | d |', '|  |  |', '|  |  |'),
    'delim': ('| a | b |', '|---|---|', '|---|---|', '| c | d |', '|---|---|'),
    'short': ('| a | b |', '|---|---|', '| c |', '| c |', '| c | d |'),
    'long': ('| a | b |', '|---|---|', '| c | d | e |', '| c | d |', '| c | d | e |'),
    'astral': ('| \U0001F600 | é |', '|:--|--:|', '| \U0001F600 | é |', '| \U00010348́ | x |',
               '| \U0001F600 | é |'),
    'nopipe': ('a | b', '--- | ---', 'c | d', 'c | d'),
    'onecol': ('| a |', '|---|', '| a |', '| b |', '| a |'),
    'norows': ('| a | b |', '|---|---|'),
    'spaces': ('| a | b |', '|---|---|', '| c | d |', '|c|d|', '| c | d |  ', '|  c  |  d  |', '| c | d |'),
    'escpipe': ('| a | b |', '|---|---|', '| `x\\|y` | d |', '| `x\\|y` | d |'),
}


def allowed(a, b, g):
    """May block b follow block a after g blank lines (tags; CommonMark 0.30 sections 4-5)?"""
    ta, tb = a.tag, b.tag
    if ta == 'icode' and tb == 'icode':
        return False                      # one code block
    if ta == 'list' and tb in ('icode', 'list'):
        return False                      # continuation of the last item / one list
    if g > 0:
        return True
    if ta in ('atx', 'hr', 'fence', 'html', 'setext'):
        return True                       # closed on their last line
    if ta == 'def':
        return tb != 'icode'              # an indented line continues the paragraph-like definition
    if ta == 'para':
        return tb in ('atx', 'hr', 'fence', 'quote', 'html', 'html6')
    if ta == 'table':
        return tb in ('atx', 'hr', 'fence', 'quote')
    return False                          # html6, quote, list: a blank line is needed


# contexts: (blocks, gaps, lead) -> list of top-level blocks, or None when not spellable
def _q(inner=None, lazy=False):
    def f(bs, g, lead):
        r = [quote(bs, g, lead, lazy=lazy)]
        return inner(r, 1, ()) if inner else r
    return f


def _l(inner=None, marker='-', blank_start=False, second=None, lazy=False):
    def f(bs, g, lead):
        if lead:
            return None                   # an item cannot begin with two blank lines
        if bs[0].tag == 'def' and blank_start:
            return None
        items = [item(bs, g, blank_start=blank_start, lazy=lazy)]
        if second is not None:
            items.insert(0, item([para('one')]))
        r = [lst(items, marker, between=second or 0)]
        return inner(r, 1, ()) if inner else r
    return f


def _after_para(bs, g, lead):
    return [para('zzz'), quote(bs, g, lead)]


CTXS = {
    'top': lambda bs, g, lead: [seq(bs, g, lead)],
    'Q': _q(), 'Qz': _q(lazy=True),
    'L': _l(), 'Lz': _l(lazy=True), 'Lb': _l(blank_start=True), 'O': _l(marker='10.'),
    'L2': _l(second=0), 'L2l': _l(second=1), 'L2b': _l(second=2, blank_start=True),
    'QL': _l(_q()), 'QLz': _l(_q(lazy=True), lazy=True), 'LQ': _q(_l()), 'LQz': _q(_l(lazy=True), lazy=True),
    'QQ': _q(_q()), 'LL': _l(_l(), marker='+'), 'QLQ': _q(_l(_q())), 'LQL': _l(_q(_l()), marker='+'),
    'QL2': _l(_q(), second=1), 'LbQ': _q(_l(blank_start=True)), 'pQ': _after_para,
}
# NB: _q(inner) / _l(inner) build the innermost container first: 'QL' = a list inside a quote,
# 'LQ' = a quote inside a list item.


def _in(ctx, bs, g=1, lead=()):
    return CTXS[ctx](bs, g, lead)


def _ok_seq(bs, gaps):
    gl = gaps if isinstance(gaps, (list, tuple)) else [gaps] * (len(bs) - 1)
    for a, b, g in zip(bs, bs[1:], gl):
        if not allowed(a, b, g if isinstance(g, int) else len(g)):
            return False
    return True


def line_cases():
    """Yield (tag, blocks, gaps, lead) of top-level documents -- deterministic, seed independent."""
    V = VOCAB
    ctxs = list(CTXS)

    def emit(tag, ctx, bs, g=1, lead=(), after=None, ag=1, dlead=()):
        """bs inside the context; `after`: top-level blocks following the context"""
        if not _ok_seq(bs, g):
            return None
        top = _in(ctx, bs, g, lead)
        if top is None:
            return None
        gaps = [1] * (len(top) - 1)
        if after:
            top = top + after
            gaps += [ag] + [1] * (len(after) - 1)
        return ('%s|%s' % (tag, ctx), top, gaps, dlead)

    # A. tables: identical / spacer / short / over-long rows, in every context, preceded by blank
    #    lines, definitions and paragraphs inside the container, followed by other blocks
    pres = [('none', [], [], ()), ('lead1', [], [], ['']), ('lead3', [], [], ['', '  ', '']),
            ('def0', ['def1'], [0], ()), ('def1', ['def1'], [1], ()), ('def2', ['def2'], [0], ()),
            ('def2b', ['def2', 'def3'], [0, 2], ()), ('para1', ['p1'], [1], ()), ('para3', ['p2'], [3], ()),
            ('atx0', ['atx'], [0], ()), ('tab', ['table'], [1], ()), ('lead+def', ['def4'], [1], [''])]
    for tn, tl in TABLES.items():
        for c in ctxs:
            for pn, pb, pg, lead in pres:
                for an, after, ag in (('end', None, 1), ('p', ['p1'], 1), ('atx', ['atx'], 0), ('same', ['table'], 2)):
                    bs = [V[k]() for k in pb] + [table(*tl)]
                    inner_after = [V[k]() for k in after] if after else []
                    # the follower goes inside the container as well
                    yield emit('A:%s:%s:%s' % (tn, pn, an), c, bs + inner_after, pg + ([ag] if after else []), lead)
            for dl in (['', ''], ['   ']):
                yield emit('A:%s:doclead' % tn, c, [table(*tl)], 1, (), after=[V['p1']()], dlead=dl)

    # B. lists followed by >= 2 blank lines and a non-list block / the end of input, at any depth
    def lists():
        P = lambda *a: para(*(a or ('li',)))      # noqa: E731
        yield 'one', lambda m: lst([item([P()])], m)
        yield 'one2', lambda m: lst([item([P('li', 'li2')])], m)
        yield 'two', lambda m: lst([item([P()]), item([P()])], m)
        yield 'twol', lambda m: lst([item([P()]), item([P()])], m, between=2)
        yield 'pf', lambda m: lst([item([P(), V['fence']()], gaps=2)], m)
        yield 'bs', lambda m: lst([item([P()], blank_start=True)], m)
        yield 'bs2', lambda m: lst([item([P()]), item([P(), P()], blank_start=True, gaps=2)], m)
        yield 'nest', lambda m: lst([item([P(), lst([item([P()])], '+')], gaps=0)], m)
        yield 'nest3', lambda m: lst([item([P(), lst([item([P(), lst([item([P()]), item([P()])], '2)')],
                                                         gaps=0)], '+')], gaps=0)], m)
        yield 'nestbs', lambda m: lst([item([lst([item([P()], blank_start=True)], '+')], blank_start=True)], m)
        yield 'late', lambda m: lst([item([P(), lst([item([P()])], '+'), P('ccc'), V['atx']()],
                                         gaps=[0, 2, 3])], m)
        yield 'late2', lambda m: lst([item([P(), lst([item([P(), lst([item([P()])], '1.'), P('in')],
                                                          gaps=[0, 2])], '+'), P('out')], gaps=[0, 3])], m)
        yield 'q', lambda m: lst([item([quote([P()])])], m)
        yield 'qn', lambda m: lst([item([P(), quote([lst([item([P()]), item([P()])], '+')])], gaps=2)], m)
        yield 'empty', lambda m: lst([item([P()]), item([])], m)
        yield 'icode', lambda m: lst([item([V['icode']()]), item([P(), V['icodeb']()], gaps=2)], m)
        yield 'tbl', lambda m: lst([item([V['table']()]), item([V['table']()])], m)

    followers = [None, 'p1', 'p2', 'atx', 'setext3', 'hr', 'fence', 'html', 'table', 'quote', 'olist', 'def2']
    for ln, mk in lists():
        for marker in ('-', '3.'):
            for nb in (1, 2, 3, ['  ', ''], ['', '    ', '']):
                for fo in followers:
                    for c in ctxs:
                        if c in ('LL', 'LQL') or (marker == '3.' and c not in ('top', 'Q', 'L', 'LQ', 'QL')):
                            continue      # '+' is used by the nested lists of the shapes
                        l = mk(marker)
                        if fo is None:
                            n = nb if isinstance(nb, int) else len(nb)
                            yield emit('B:%s:%s:eof%d' % (ln, marker, n), c, [l], 1, (),
                                       after=None, dlead=())
                            continue
                        f = V[fo]()
                        if fo == 'olist' and marker == '3.':
                            f = V['list']()
                        # follower inside the context (same container as the list) ...
                        yield emit('B:%s:%s:in:%s' % (ln, marker, fo), c, [l, f], [nb])
                        # ... and behind the context, at the top level
                        if c != 'top':
                            yield emit('B:%s:%s:out:%s' % (ln, marker, fo), c, [l], 1, (), after=[f], ag=nb)

    # C. all ordered pairs of the vocabulary (identical siblings included) x gaps x contexts
    names = LEAVES + CONTS + DEFS
    for a in names:
        for b in names:
            for g in (0, 1, 2, 3):
                for c in ctxs:
                    x, y = V[a](), V[b]()
                    if x.tag == 'list' and y.tag == 'list':
                        y = lst([item([para('li')]), item([para('li')])], '+' if a != 'listn' else '7)')
                        if c in ('LL', 'LQL') or a == 'olist':
                            continue
                    yield emit('C:%s:%s:%d' % (a, b, g), c, [x, y], g)
    # identical blocks around a different one
    for a in LEAVES + CONTS:
        for m in ('p1', 'atx', 'def2'):
            for c in ctxs:
                if V[a]().tag == 'list' and c in ('LL', 'LQL'):
                    continue
                yield emit('C3:%s:%s' % (a, m), c, [V[a](), V[m](), V[a]()], [1, 2] if m != 'def2' else [2, 1])
    # identical list items (tight, loose, with children)
    for c in ctxs:
        if c in ('LL', 'LQL'):
            continue
        for m in ('-', '1.'):
            for bt in (0, 1, 2):
                for ch in (['p1'], ['p1', 'fence'], ['atx'], ['fence'], ['p2', 'quote'], ['icode']):
                    its = [item([V[k]() for k in ch], gaps=1) for _ in range(3)]
                    yield emit('C4:%s:%d:%s' % (m, bt, '+'.join(ch)), c, [lst(its, m, between=bt)])

    # D. blank lines at the start of the input (and of a container), empty and whitespace-only
    leads = [[''], ['', ''], ['', '', ''], [''] * 5, ['  '], ['\t'], ['', '   ', ''], ['   ', '']]
    for a in names:
        for ld in leads:
            for c in ('top', 'Q', 'QQ', 'LQ', 'pQ'):
                yield emit('D:%s:%d' % (a, len(ld)), c, [V[a](), V['p1']()], 1, ld)
            for c in ctxs:
                yield emit('D2:%s:%d' % (a, len(ld)), c, [V[a]()], 1, (), after=[V['p1']()], dlead=ld)

    # E. whitespace-only lines of >= 4 columns in front of an indented code block
    for pre in (None, 'p1', 'atx', 'fence', 'def1', 'quote'):
        for gap in (['    '], ['     '], ['', '      '], ['      ', ''], ['\t'], ['    ', '     '], ['  \t  ']):
            for code in ('icode', 'icodeb'):
                for c in ctxs:
                    if pre is None:
                        yield emit('E:none:%s' % code, c, [V[code](), V['p1']()], 1, gap)
                    else:
                        yield emit('E:%s:%s' % (pre, code), c, [V[pre](), V[code](), V['p1']()], [gap, 1])


def line_docs(k, n):
    """Slice k of n of the directed documents: (tag, text, expected shape)."""
    i = 0
    for case in line_cases():
        if case is None:
            continue
        i += 1
        if i % n != k:
            continue
        tag, top, gaps, dlead = case
        end = ('', '\n\n\n')[i % 7] if i % 7 < 2 else '\n'
        text, exp = ldoc(top, gaps, dlead, end)
        yield tag, text, exp


BIASES = [
    {'blank_start': 1.0},
    {'blank_start': 1.0, 'lazy': 0.9, 'indent': 0.7},
    {'lazy': 0.9, 'noblank': 0.9, 'blank_start': 0.0},
    {'lead': 2, 'defs': 'top', 'blank_start': 0.3},
    {'lead': 1, 'defs': 'bottom', 'blank_start': 0.0, 'lazy': 0.0},
]


def _spellings(tree, tag, nrand, nbias_rounds=1):
    sps = [docs.canonical_spelling(tree)]
    for rnd in range(nbias_rounds):
        for j, b in enumerate(BIASES):
            sps.append(docs.Spelling(seed='%s|b%d.%d' % (tag, rnd, j), bias=b))
    sps.extend(docs.spellings(tree, tag, nrand))
    return sps


def _trees(unit):
    kind = unit[0]
    if kind == 'hand':
        for i, t in enumerate(hand_trees()):
            yield 'h%d' % i, docs.number(t), 8, 8
    elif kind == 'enum':
        _, mb, md, k, n = unit
        for i, t in enumerate(docs.enumerate_trees(mb, md)):
            if i % n == k:
                yield 'e%d' % i, t, 1, 1
    else:
        _, mb, md, seed, start, count = unit
        for i, t in enumerate(docs.gen_trees(mb, md, seed, count, start=start), start):
            yield 'r%d' % i, t, 1, 0


def _work(arg):
    unit, seed = arg
    use_repo()
    res = {'evaluations': 0, 'contract_evaluations': 0, 'failures': [], 'samples': [],
           'hashes': set(), 'by_class': {}, 'failures_total': 0, 'skipped': 0, 'skipped_shape': 0, 'checked': 0}
    for name, tree, nrand, nbias in _trees(unit):
        nt = docs.tree_depth(tree) >= 2 or len(docs.nodefs(tree)) >= 2
        seen_here = set()
        for sp in _spellings(tree, '%d|%s' % (seed, name), nrand, nbias):
            w = docs.write(tree, sp)
            if w.text in seen_here:
                continue
            seen_here.add(w.text)
            res['evaluations'] += 1
            status, ncmp, detail = check(w)
            res['contract_evaluations'] += 1 + ncmp
            if status in ('shape', 'c03'):
                res['skipped'] += 1
                res['skipped_shape'] += status == 'shape'
                continue
            res['checked'] += 1
            if nt:
                res['hashes'].add(hashlib.md5(w.text.encode()).digest()[:8])
            if status == 'ok':
                if len(res['samples']) < 2 and nt:
                    res['samples'].append({'input': w.text,
                                           'lines': {str(k): v for k, v in sorted(w.lines.items())}})
                continue
            entry = {'key': '%s|%s' % (status, w.text), 'contract': status, 'input': w.text,
                     'observed': detail, 'spelling': repr(sp),
                     'expected': 'token.line_number == line on which the generator wrote the block',
                     'replay': 'from mistletoe import Document, HtmlRenderer\n'
                               'with HtmlRenderer(): d = Document(%r)\n'
                               '# walk d.children and print (type(t).__name__, t.line_number)' % w.text}
            cls = 'unclassified'
            if status == 'c13':
                cls = classify(w, detail)
                try:
                    t2, sp2, w2 = shrink(tree, sp, _fails, budget=200)
                    entry['minimal'] = w2.text
                    entry['minimal_observed'] = check(w2)[2]
                    if cls == 'unclassified':
                        cls = classify(w2, entry['minimal_observed'])
                except Exception as e:          # best effort
                    entry['shrink_error'] = repr(e)
            entry['class'] = cls
            res['by_class'][cls] = res['by_class'].get(cls, 0) + 1
            res['failures_total'] += 1
            res['failures'].append(entry)
        if len(res['failures']) > 2 * MAX_FAILURES:
            res['failures'].sort(key=lambda f: (len(f['input']), f['input']))
            del res['failures'][MAX_FAILURES:]
    res['failures'].sort(key=lambda f: (len(f['input']), f['input']))
    del res['failures'][MAX_FAILURES:]
    return res


def run(tier, seed, workers):
    workers = max(1, workers)
    if tier == 'quick':
        enum, rand = (3, 2), (8, 3, 1500)
    else:
        enum, rand = (3, 2), (40, 4, 25000)
    nchunks = workers * 4
    units = [('hand',)] + [('enum', enum[0], enum[1], k, nchunks) for k in range(nchunks)]
    per = max(1, rand[2] // (workers * 8))
    for start in range(0, rand[2], per):
        units.append(('rand', rand[0], rand[1], seed, start, min(per, rand[2] - start)))
    parts = pool_map(_work, [(u, seed) for u in units], workers)
    out = {'evaluations': 0, 'contract_evaluations': 0, 'failures': [], 'samples': []}
    hashes, by_class, total, skipped, checked, sshape = set(), {}, 0, 0, 0, 0
    for p in parts:
        out['evaluations'] += p['evaluations']
        out['contract_evaluations'] += p['contract_evaluations']
        out['failures'].extend(p['failures'])
        hashes |= p['hashes']
        total += p['failures_total']
        skipped += p['skipped']
        sshape += p['skipped_shape']
        checked += p['checked']
        for k, v in p['by_class'].items():
            by_class[k] = by_class.get(k, 0) + v
        if len(out['samples']) < 6:
            out['samples'].extend(p['samples'][:1])
    uniq = {}
    for f in out['failures']:
        uniq.setdefault(f['key'], f)
    fl = sorted(uniq.values(), key=lambda f: (len(f['input']), f['input']))
    out['failures'] = fl[:MAX_FAILURES]
    out['failures_total'] = total
    out['failures_by_class'] = dict(sorted(by_class.items(), key=lambda kv: -kv[1]))
    out['skipped_c03_failure'] = skipped
    out['skipped_shape_mismatch'] = sshape
    out['checked'] = checked
    out['distinct_nontrivial'] = len(hashes)
    out['exhaustive'] = False
    out['domain'] = (
        'DOCS with recorded start lines: (a) %d hand-built trees (item starting with a blank line, '
        'lazy lines, definitions before/between blocks, quote-in-list-in-quote, tables in '
        'containers) x (canonical + 8 rounds of %d biased spellings + 8 seeded); (b) all valid '
        'trees with <= %d blocks, nesting <= %d over the reduced vocabulary x (canonical + %d '
        'biased [blank-start items, lazy lines, leading blank lines, definitions moved to '
        'top/bottom] + 1 seeded spelling); (c) %d seeded random trees (seed %d), <= %d blocks, '
        'nesting <= %d x (canonical + 1 seeded spelling)'
        % (len(hand_trees()), len(BIASES), enum[0], enum[1], len(BIASES), rand[2], seed,
           rand[0], rand[1]))
    out['rule'] = (
        'Document(write(tree, spelling).text) inside an active HtmlRenderer; every block token '
        'matched structurally to a tree node must carry the line the writer recorded for that '
        'node. Precondition: the rendered HTML equals the HTML of the tree (C03 holds for the case); '
        'other cases are skipped and counted in skipped_c03_failure (of which '
        'skipped_shape_mismatch would also fail the structural matching); `checked` cases were compared. Non-trivial: the tree '
        'nests or has >= 2 blocks; distinct = distinct written texts among checked cases. '
        'contract_evaluations counts one per compared token plus one noraise per case.')
    return out
