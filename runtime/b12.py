"""C12 (bounded): the token tree is well-formed and its generic views are faithful.

Postconditions of Document(x), evaluated under the token sets of HtmlRenderer, MarkdownRenderer,
LaTeXRenderer, XWiki20Renderer (parse inside the renderer's context) and AstRenderer; the directed part
(see below) is additionally parsed under the token sets of the contrib renderers that add tokens
(GithubWikiRenderer, JiraRenderer, MathJaxRenderer):

 tree      every token reachable through .children (and through Table.header) is reached once (no sharing,
           no cycle)
 parent    child.parent is the token that lists it (also inside the header row of a table; the parent of the
           header row itself is not demanded, no token lists it)
 kinds     List>ListItem, Table>TableRow (+ header is a TableRow), TableRow>TableCell;
           Paragraph/Heading/SetextHeading/TableCell > span tokens only; Document/Quote/ListItem > block
           tokens only; BlockCode/CodeFence/HtmlBlock and InlineCode/AutoLink/EscapeSequence > exactly one
           RawText; a span token contains span tokens only; RawText/LineBreak/HtmlSpan/ThematicBreak/BlankLine
           ("without children") have none; LinkReferenceDefinitionBlock > LinkReferenceDefinition
 ranges    Heading.level in 1..6; SetextHeading.level in {1,2}; TableCell.align in {None,0,1};
           List.start is None iff the first item's leader is one of - + * , else the leader is
           digits + '.'|')' and start == int(digits)
 traverse  list(mistletoe.utils.traverse(doc, klass, depth, include_source)) is exactly the sequence of
           (node, parent, depth) triples of an independent breadth-first walk (level by level, parents in
           order, children in order), filtered by klass and depth, each once.
           full grid (directed part + spec examples): klass in {None, Token, BlockToken, SpanToken, every
           class occurring in the tree, one class that does not occur} x depth in {None, 0..height+1} x
           include_source in {False, True}, plus traverse(child) / traverse(child, include_source=True)
           for every top-level block as the source;
           light grid (ALPHA part): default, include_source=True, depth=0..3, klass in {Paragraph, RawText,
           ListItem} alone and with include_source=True, depth=2, klass=SpanToken (a base class)
 ast       json.loads(AstRenderer().render(doc)) (own context) resp. json.loads(json.dumps(get_ast(doc)))
           mirrors the tree: type names, children (recursively, same order), header, line numbers, content

Input domain: 652 spec examples + ALPHA enumeration (exhaustive) + a DIRECTED part, identical for every seed:
 tables    1..3 delimiter columns x header with n-1/n/n+1 cells x bodies {none, one row of 0, n-1, n, n+1, n+3
           cells, two rows short/long, long/short, full/empty, empty/full} x 4 pipe styles x contexts {top
           level, quote, bullet item, ordered item, quote>item, item>quote, lazy quote, after a paragraph};
           cell contents rotate over emphasis, code with escaped pipe, autolink, escape, empty, non-ASCII,
           astral, link, image, strikethrough, math, wiki link, inline HTML
 inlines   ~60 inline specimens (every span token class of every token set, multi-line, empty, non-ASCII)
           x {paragraph, ATX heading, setext heading, quote, list item, table cell, link text, emphasis,
           lazy continuation}
 blocks    ~110 block specimens (mtutil.BLOCKS + link reference definitions, setext headings, empty list
           items, empty quotes, blank-only documents, HTML blocks of all 7 start conditions, code blocks,
           list start numbers, identical siblings, XWiki macros) alone, in every context, and all ordered
           pairs of mtutil.BLOCKS joined by one newline and by a blank line
and a SEEDED part: 1500 random documents of 2..4 block specimens with random separators and nesting.
"""
import json
import random
from collections import deque

from runtime.common import use_repo, spec_examples, pool_map, merge
from runtime.mtutil import reset_state, alpha_tasks, task_strings, keep_smallest, BLOCKS

use_repo()
from mistletoe import Document, block_token as bt, span_token as st, token as tk  # noqa: E402
from mistletoe.utils import traverse  # noqa: E402
from mistletoe.ast_renderer import AstRenderer, get_ast  # noqa: E402
from mistletoe.html_renderer import HtmlRenderer  # noqa: E402
from mistletoe.markdown_renderer import MarkdownRenderer  # noqa: E402
from mistletoe.latex_renderer import LaTeXRenderer  # noqa: E402
from mistletoe.contrib.xwiki20_renderer import XWiki20Renderer  # noqa: E402

MAX_KEEP = 400
SETS = [('Html', HtmlRenderer), ('Markdown', MarkdownRenderer), ('LaTeX', LaTeXRenderer), ('XWiki20', XWiki20Renderer),
        ('Ast', AstRenderer)]
# contrib renderers whose constructor adds token classes (Scheme replaces the Markdown token lists by a Lisp
# reader and TocRenderer/PygmentsRenderer add nothing, so they are not token sets of Markdown documents)
EXTRA_SETS = [('GithubWiki', 'mistletoe.contrib.github_wiki', 'GithubWikiRenderer'),
              ('Jira', 'mistletoe.contrib.jira_renderer', 'JiraRenderer'),
              ('MathJax', 'mistletoe.contrib.mathjax', 'MathJaxRenderer')]
LEAF_BLOCKS = ('Paragraph', 'Heading', 'SetextHeading', 'TableCell')
CONTAINERS = ('Document', 'Quote', 'ListItem')
ONE_RAW = ('BlockCode', 'CodeFence', 'HtmlBlock', 'InlineCode', 'AutoLink', 'EscapeSequence')
NO_CHILDREN = ('RawText', 'LineBreak', 'HtmlSpan', 'ThematicBreak', 'BlankLine')
KLASSES = (bt.Paragraph, st.RawText, bt.ListItem)


def walk(root):
    """Independent breadth-first walk: ([(node, parent, depth)] for every token below root, level by level,
    objects met twice)."""
    out, seen, dup = [], {id(root)}, []
    queue = deque([(root, 0)])
    while queue:
        tok, depth = queue.popleft()
        for c in getattr(tok, 'children', None) or ():
            if id(c) in seen:
                dup.append(c)
                continue
            seen.add(id(c))
            out.append((c, tok, depth + 1))
            queue.append((c, depth + 1))
    return out, dup


def headers(doc, nodes):
    """Header rows of the tables of the tree (Table.header is not listed in .children)."""
    return [tok.header for tok, _, _ in [(doc, None, 0)] + nodes if type(tok).__name__ == 'Table' and 'header' in vars(tok)]


def well_formed(root, nodes):
    """-> list of (clause, message).  The parent of `root` itself is not examined."""
    bad = []
    for tok, par, _ in [(root, None, 0)] + nodes:
        name = type(tok).__name__
        if not isinstance(tok, tk.Token):
            bad.append(('kinds', '%s under %s is not a token' % (name, type(par).__name__)))
            continue
        ch = tok.children
        if par is not None and tok.parent is not par:
            bad.append(('parent', '%s under %s has parent %s' % (name, type(par).__name__, type(tok.parent).__name__)))
        kids = list(ch) if ch is not None else []
        kn = [type(c).__name__ for c in kids]
        is_span = isinstance(tok, st.SpanToken)
        if is_span and any(not isinstance(c, st.SpanToken) for c in kids):
            what = 'block' if any(isinstance(c, bt.BlockToken) for c in kids) else 'non-span'
            bad.append(('kinds', 'span %s contains %s %s' % (name, what, kn)))
        if name == 'List' and (not kids or any(type(c) is not bt.ListItem for c in kids)):
            bad.append(('kinds', 'List children %s' % kn))
        if name == 'Table':
            if any(type(c) is not bt.TableRow for c in kids):
                bad.append(('kinds', 'Table children %s' % kn))
            if 'header' in vars(tok) and type(tok.header) is not bt.TableRow:
                bad.append(('kinds', 'Table.header is %s' % type(tok.header).__name__))
        if name == 'TableRow' and any(type(c) is not bt.TableCell for c in kids):
            bad.append(('kinds', 'TableRow children %s' % kn))
        if name in LEAF_BLOCKS and (ch is None or any(not isinstance(c, st.SpanToken) for c in kids)):
            bad.append(('kinds', '%s children %s' % (name, kn if ch is not None else None)))
        if name in CONTAINERS and (ch is None or any(not isinstance(c, bt.BlockToken) for c in kids)):
            bad.append(('kinds', '%s children %s' % (name, kn if ch is not None else None)))
        if name in ONE_RAW and kn != ['RawText']:
            bad.append(('kinds', '%s children %s' % (name, kn)))
        if name in NO_CHILDREN and kids:
            bad.append(('kinds', '%s children %s' % (name, kn)))
        if name == 'LinkReferenceDefinitionBlock' and any(n != 'LinkReferenceDefinition' for n in kn):
            bad.append(('kinds', '%s children %s' % (name, kn)))
        if name == 'Heading' and not (type(tok.level) is int and 1 <= tok.level <= 6):
            bad.append(('ranges', 'Heading.level %r' % (tok.level,)))
        if name == 'SetextHeading' and tok.level not in (1, 2):
            bad.append(('ranges', 'SetextHeading.level %r' % (tok.level,)))
        if name == 'TableCell' and not (tok.align is None or (type(tok.align) is int and tok.align in (0, 1))):
            bad.append(('ranges', 'TableCell.align %r' % (tok.align,)))
        if name == 'List' and kids and type(kids[0]) is bt.ListItem:
            leader = kids[0].leader
            if leader in ('-', '+', '*'):
                ok = tok.start is None
            else:
                digits = leader[:-1]
                ok = (leader[-1:] in ('.', ')') and digits != '' and digits.isdigit()
                      and type(tok.start) is int and tok.start == int(digits))
            if not ok:
                bad.append(('ranges', 'List.start %r with first leader %r' % (tok.start, leader)))
    return bad


# ------------------------------------------------------------------ traverse
def _kname(K):
    return None if K is None else K.__name__


def _one_traverse(src, nodes, K, d, inc):
    """Compare one call of traverse with the independent walk -> None or a message."""
    want = [(id(src), None, 0)] if inc and (K is None or isinstance(src, K)) else []
    want += [(id(n), id(p), dep) for n, p, dep in nodes if (K is None or isinstance(n, K)) and (d is None or dep <= d)]
    kw = {}
    if K is not None:
        kw['klass'] = K
    if d is not None:
        kw['depth'] = d
    if inc:
        kw['include_source'] = True
    args = '+'.join(sorted(kw)) or 'default'
    try:
        got = [(id(r.node), id(r.parent) if r.parent is not None else None, r.depth) for r in traverse(src, **kw)]
    except RecursionError:
        raise
    except Exception as e:  # noqa
        return '%s: (klass=%s, depth=%s, include_source=%s) raises %s: %s' % (args, _kname(K), d, inc, type(e).__name__, e)
    if got == want:
        return None
    if sorted(got, key=repr) == sorted(want, key=repr):
        return '%s:order: (klass=%s, depth=%s, include_source=%s) yields the right triples in another order than breadth-first' \
               % (args, _kname(K), d, inc)
    gs, ws = set(got), set(want)
    return '%s: (klass=%s, depth=%s, include_source=%s) yields %d triples, %d expected; %d missing, %d unexpected, %d repeated' \
           % (args, _kname(K), d, inc, len(got), len(want), len(ws - gs), len(gs - ws), len(got) - len(gs))


def check_traverse(doc, nodes, full):
    """-> (list of (clause, message) with at most one entry: the failing call with the fewest non-default
    arguments, number of traverse calls compared)."""
    if full:
        present = list(dict.fromkeys(type(n) for n, _, _ in nodes))
        absent = [K for K in (bt.ThematicBreak, st.Strikethrough, bt.CodeFence) if K not in present][:1]
        klasses = [None, tk.Token, bt.BlockToken, st.SpanToken, bt.Document] + present + absent
        height = max([d for _, _, d in nodes] or [0])
        depths = [None] + list(range(0, height + 2))
        combos = [(K, d, inc) for K in klasses for d in depths for inc in (False, True)]
        combos.sort(key=lambda c: (c[0] is not None) + (c[1] is not None) + c[2])
    else:
        combos = [(None, None, False), (None, None, True)] + [(None, k, False) for k in (0, 1, 2, 3)]
        for K in KLASSES:
            combos += [(K, None, False), (K, 2, True)]
        combos.append((st.SpanToken, None, False))
    n = 0
    for K, d, inc in combos:
        n += 1
        m = _one_traverse(doc, nodes, K, d, inc)
        if m:
            return [('traverse', m)], n
    if full:
        for c in doc.children or ():
            sub, _ = walk(c)
            for inc in (False, True):
                n += 1
                m = _one_traverse(c, sub, None, None, inc)
                if m:
                    return [('traverse', 'subtree:' + m.split(':', 1)[1] + ' from source %s' % type(c).__name__)], n
    return [], n


# ------------------------------------------------------------------ AST
def mirror(tok, node, path='$'):
    if not isinstance(node, dict) or node.get('type') != type(tok).__name__:
        return '%s: type %r for %s' % (path, node.get('type') if isinstance(node, dict) else node, type(tok).__name__)
    if getattr(tok, 'line_number', None) is not None and 'line_number' in type(tok).repr_attributes \
            and node.get('line_number') != tok.line_number:
        return '%s: line_number %r vs %r' % (path, node.get('line_number'), tok.line_number)
    if isinstance(vars(tok).get('content'), str) and node.get('content') != tok.content:
        return '%s: content %r vs %r' % (path, node.get('content'), tok.content)
    if 'header' in vars(tok):
        m = mirror(tok.header, node.get('header'), path + '.header')
        if m:
            return m
    ch = tok.children
    if ch is None:
        return None if 'children' not in node else '%s: children present for a leaf' % path
    nc = node.get('children')
    if not isinstance(nc, list) or len(nc) != len(ch):
        return '%s: %s children vs %d' % (path, len(nc) if isinstance(nc, list) else nc, len(ch))
    for i, (c, n) in enumerate(zip(ch, nc)):
        m = mirror(c, n, '%s/%s[%d]' % (path, type(tok).__name__, i))
        if m:
            return m
    return None


# ------------------------------------------------------------------ coverage features (directed part only)
def features(x, doc, nodes, hdr_nodes):
    f = set()
    for tok, par, _ in nodes + hdr_nodes:
        name = type(tok).__name__
        f.add('edge:%s>%s' % (type(par).__name__ if par is not None else 'Table.header', name))
        if name == 'Table' and 'header' in vars(tok):
            ncol = len(tok.column_align)
            anc, p = [], par
            while p is not None:
                anc.append(type(p).__name__)
                p = p.parent
            where = 'ListItem' if 'ListItem' in anc else 'Quote' if 'Quote' in anc else 'top'
            f.add('table@' + where)
            # a source row with fewer cells than columns is padded, so only the generator knows about it
            for tag in TABLE_TAGS.get(x, ()):
                f.add('table-source-%s@%s' % (tag, where))
            for r in [tok.header] + list(tok.children or ()):
                nr = len(r.children or ())
                kind = 'header' if r is tok.header else 'row'
                f.add('table-%s-%s@%s' % (kind, 'fewer-cells' if nr < ncol else 'more-cells' if nr > ncol else 'as-many-cells', where))
        if name in ('ListItem', 'Quote', 'TableCell', 'Paragraph', 'Heading', 'SetextHeading') and not tok.children:
            f.add('empty:' + name)
    if not doc.children:
        f.add('empty:Document')
    return f


def check_doc(x, setname, renderer, full):
    """-> (list of (clause, message), nontrivial, number of traverse calls compared, coverage features)"""
    doc = Document(x)
    nodes, dup = walk(doc)
    bad = []
    bad += well_formed(doc, nodes)
    hdr_nodes = []
    for h in headers(doc, nodes):
        if not isinstance(h, tk.Token):
            continue
        hn, hd = walk(h)
        bad += well_formed(h, hn)
        hdr_nodes += [(h, None, 0)] + hn
        dup += hd
    ids = [id(n) for n, _, _ in nodes + hdr_nodes]
    if dup or len(set(ids)) != len(ids):
        d = dup[0] if dup else [n for n, _, _ in nodes + hdr_nodes if ids.count(id(n)) > 1][0]
        bad.append(('tree', '%s object reachable twice' % type(d).__name__))
    tb, ncalls = check_traverse(doc, nodes, full)
    bad += tb
    try:
        text = renderer.render(doc) if setname == 'Ast' else json.dumps(get_ast(doc))
        m = mirror(doc, json.loads(text))
        if m:
            bad.append(('ast', m))
    except RecursionError:
        raise
    except Exception as e:  # noqa
        bad.append(('ast', '%s: %s' % (type(e).__name__, e)))
    return bad, len(nodes) > 2, ncalls, (features(x, doc, nodes, hdr_nodes) if full else ())


def classify(clause, msg):
    if clause == 'ranges' and msg.startswith('List.start'):
        leader = msg.rsplit(' ', 1)[1].strip("'\"")
        return 'list-marker-without-digits' if leader in ('.', ')') else 'list-start-mismatch'
    if clause == 'ast':
        return 'ast-mirror'
    if clause == 'parent':
        return 'parent-link:' + msg.split(' ')[0]
    if clause == 'traverse':
        head = msg.split(' ', 1)[0].rstrip(':')
        return 'traverse:' + head
    if clause == 'tree':
        return 'tree:shared-' + msg.split(' ')[0]
    return clause + ':' + msg.split(' ')[0]


# ------------------------------------------------------------------ directed inputs
def quote(t):
    return '\n'.join('> ' + ln if ln else '>' for ln in t.split('\n'))


def item(t, marker='- '):
    ls = t.split('\n')
    return '\n'.join([marker + ls[0]] + [(' ' * len(marker) + ln if ln else '') for ln in ls[1:]])


def lazy_quote(t):
    ls = t.split('\n')
    return '\n'.join(['> ' + ls[0]] + ls[1:])


def lazy_item(t):
    ls = t.split('\n')
    return '\n'.join(['- ' + ls[0]] + ls[1:])


CONTEXTS = [
    ('top', lambda t: t),
    ('quote', quote),
    ('item', item),
    ('oitem', lambda t: item(t, '7. ')),
    ('quote>item', lambda t: quote(item(t))),
    ('item>quote', lambda t: item(quote(t))),
    ('lazyquote', lazy_quote),
    ('afterpara', lambda t: 'para\n' + t),
    ('lazyitem', lazy_item),
    ('quote>quote', lambda t: quote(quote(t))),
    ('item>item', lambda t: item('x\n' + item(t, '+ '))),
    ('item,blank', lambda t: item('x\n\n' + t)),
]
TABLE_CONTEXTS = CONTEXTS[:8]

CELLS = ['a', '*e*', '`c\\|d`', '<http://x.y>', '\\*', '', 'é𝄞', '[l](u)', '**s** t', '$m$', '<b>', '~~s~~',
         '![i](s)', 'a\\|b', '`c`', '[[w\\|t]]', '<a@b.c>', '\\\\', '&amp;']
ALIGNS = ['---', ':--', '--:', ':-:', '-']


def table_row(cells, style):
    if not cells:
        return '|' if style in (0, 2) else '||'
    s = ' | '.join(cells)
    if style == 1 and len(cells) == 1:
        style = 3  # a row needs a pipe to belong to the table
    return ('| ' if style in (0, 2) else '') + s + (' |' if style in (0, 3) else '')


TABLE_TAGS = {}  # generated table document -> what its source rows look like (the tree no longer shows it)


def table_docs():
    docs, k = [], 0

    def cells(n):
        nonlocal k
        out = [CELLS[(k + i) % len(CELLS)] for i in range(n)]
        k += n + 1
        return out
    for n in (1, 2, 3):
        bodies = [None, (0,), (n - 1,), (n,), (n + 1,), (n + 3,), (n - 1, n + 1), (n + 1, n - 1), (n, 0), (0, n)]
        for h in sorted({max(n - 1, 0), n, n + 1}):
            for body in bodies:
                for style in range(4):
                    lines = [table_row(cells(h), style), table_row([ALIGNS[(k + style + i) % 5] for i in range(n)], style)]
                    for r in body or ():
                        lines.append(table_row(cells(max(r, 0)), style))
                    t = '\n'.join(lines)
                    tags = (['header-short'] if h < n else ['header-long'] if h > n else []) + \
                           (['row-short'] if any(r < n for r in body or ()) else []) + \
                           (['row-long'] if any(r > n for r in body or ()) else []) + \
                           (['row-without-cells'] if 0 in (body or ()) else [])
                    for _, ctx in TABLE_CONTEXTS:
                        docs.append(ctx(t))
                        TABLE_TAGS[docs[-1]] = tags
    docs += [
        '|a|b|\n|-|-|\n|1|2|\n\n|a|b|\n|-|-|\n|1|2|',           # identical sibling tables
        '|a|a|\n|-|-|\n|a|a|\n|a|a|',                           # identical cells and rows
        '| | |\n|-|-|\n| | |\n|  |',                            # whitespace-only cells
        '|a|\n|-|-|-|\n|1|',                                    # delimiter row wider than header and body
        '|a|b|c|d|e|f|\n|-|-|-|-|-|-|\n|1|\n|1|2|3|4|5|6|7|8|',  # six columns, short and over-long rows
        '|a|b|\n|-|-|\n|1|2|\ntext without pipe',               # table ended by a paragraph
        'a|b\n-|-\n\\|\n\\\\|x|y',                               # escaped pipes and backslashes
        '|a|b|\n|-|-|\n|1|2|  \n|3|\t\n',                       # trailing whitespace
        '|`a|b`|\n|-|-|\n|*x|y*|',                              # inline constructs cut by the cell splitter
        '| a | b |\n|:-:|--:|\n| é | 𝄞 | extra |\n|',
        '- |a|b|\n  |-|-|\n  |1|\n- |c|\n  |-|\n  |1|2|\n',
        '> |a|b|\n> |-|-|\n> |1|\n>\n> |c|\n> |-|\n> |1|2|',
        '> - > |a|b|\n>   > |-|-|\n>   > |1|2|3|\n>   > |',
        '|a|b|\n|-|-|\n|1|\n# h\n|c|d|\n|-|-|',
    ]
    return docs


INLINES = [
    'a', '', 'é', '𝄞 \U0001F600', 'a b  c',
    '`code`', '`` a`b ``', '` `', '`a\nb`', '` a `',
    '<http://a.b>', '<a@b.c>', '<mailto:a@b.c>', '<x+y.z-1:>',
    '\\*', '\\\\', '\\\\\\*', 'a\\b', '\\`c\\`',
    'a\\\nb', 'a  \nb', 'a\nb', 'a   \n   b',
    '*e*', '**s**', '***es***', '*a **b** c*', '_e_ __s__', '*a\nb*', '**a*', '*a**',
    '~~s~~', '~~a *b* c~~', '~~a\nb~~',
    '[l](u)', '[l](u "t")', '[*e* `c`](u)', '[l](<u v> (t))', '[a\nb](u)', '[](u)', '[l]()',
    '![i](s)', '![*e*](s "t")', '[![i](s)](u)', '![]()', '![a ![b](c)](d)',
    '[ref]', '[ref][]', '[t][ref]', '![ref]', '[undefined][nope]',
    '<b>', '<!-- c -->', '<?p ?>', '<![CDATA[x]]>', '<a href="u">t</a>', '</b>',
    '&amp;', '&#x1F600;', '&nosuch;',
    '$m$', '$$m$$', '$a$ and $b$', '$a *b* c$', '$`$',
    '[[a|b]]', '[[ *a* | b ]]', '[[a|b]] [[c|d]]',
    '{{macro}}\nx', 'x\n{{/macro}}', '{{m a="b"}}\ntext *e*\n{{/m}}', '{{m/}}\n',
    '*a `b* c`', '[a `b](u) c`', '<a `b> c`', '**a [b**](u)',
]
REFDEF = '\n\n[ref]: /url "title"'


def inline_docs():
    docs = []
    for s in INLINES:
        one = '\n' not in s
        docs.append(s + REFDEF)
        docs.append(s + '\n===' + REFDEF)
        docs.append(s + '\n---')
        docs.append(quote(s) + REFDEF)
        docs.append(item(s) + REFDEF)
        docs.append(lazy_quote(s))
        docs.append(lazy_item(s))
        docs.append('[' + s + '](u)')
        docs.append('*' + s + '*' + REFDEF)
        docs.append('~~' + s + '~~')
        docs.append(s + ' ' + s + REFDEF)           # identical siblings
        if one:
            docs.append('# ' + s + REFDEF)
            docs.append('###### ' + s + ' ##')
            docs.append('| %s | %s |\n|---|:-:|\n| %s |' % (s, s, s) + REFDEF)
            docs.append('> - # ' + s)
    return docs


EXTRA_BLOCKS = [
    # link reference definitions (kept as tokens only in the Markdown token set)
    '[a]: /u', '[a]: /u\n[b]: /v "t"', "[a]:\n  /u\n  'title\n  cont'", '[a]: /u\ntext [a]', 'text\n[a]: /u', '[a]: <u v> (t)',
    '[A]: /u\n[a]: /v\n\n[a]', '[a]: /u\n===', '[a]: /u\nTitle [a]\n===', '[a]: /u "t" x', '[a]: /u\n[b]', '[é𝄞]: /u\n\n[É𝄞]',
    '[a]: /u\n\n[a]: /u\n\n[a]',
    # setext headings
    'T\n=', 'T\n-', 'A\nB\nC\n===', 'T  \n===   ', '   T\n   ---', 'T\n===\nU\n---', 'T\n===\n===', '`T\n===`', '*T\n---\n*',
    # empty list items, empty quotes, blank-only documents
    '-', '- ', '-\n-', '-\n\n-', '- \n- a\n-', '1.', '1.\n2.', '-\n\n  x', '- a\n-\n- b', '*\n\n\n*', '-   \n  a',
    '>', '> ', '>\n>', '>\n\n>', '> \n>  \n', '>>', '> >\n>', '- >', '> -', '>\n-\n>',
    '', '\n', '\n\n\n', ' \n', '\t\n  \n', '\n\na', 'a\n\n\n', ' \n>\n \n',
    # headings
    '#', '# #', '###### six', '####### seven', '#\ta\t#', '   # a', '#a', '# a\n# a',
    # HTML blocks: the seven start conditions
    '<script>\n\nx\n</script>', '<!-- c -->', '<?x\n\n?>', '<!X\n\n>', '<![CDATA[\n\n]]>', '<table>\n<tr>\n\n</table>', '<x-y a="b">\n*t*\n\n*p*',
    '</div>\n*t*', '<div>', '<pre>\nunclosed',
    # code blocks
    '```', '```\n```', '~~~é 𝄞\né\n~~~', '   ```\n   x\n  y\n```', '````\n```\n````', '    a\n\n\tb\n', '\tcode', '    a\n\n    a',
    '``` a`b\nx', 'p\n    notcode',
    # list start numbers and sibling lists
    '0. a', '007) a', '123456789. a', '1234567890. a', '2. a\n3. b', '- a\n+ b\n* c', '1. a\n1) b', '- a\n- a', 'p\n2. notlist', 'p\n1. list',
    '- a\n\n\n  b', '- a\n b\nc', '10. a\n\n    b', '-\ta\n\n\tb',
    # thematic breaks, identical siblings, misc
    '---\n---', '* * *\n- - -', 'a\n\na', '> a\n\n> a', '`c`\n\n`c`', 'a\\\n', 'a  \n', '*\n*',
    # XWiki macros on their own lines
    '{{info}}\ntext\n{{/info}}', '{{code language="py"}}\nx = 1\n{{/code}}', '> {{info}}\n> t\n> {{/info}}',
    # wiki links and math as blocks of their own
    '[[a|b]]', '$$\nx\n$$', '$a$\n===',
]


def block_docs():
    allb = BLOCKS + EXTRA_BLOCKS
    docs = list(allb)
    for b in allb:
        for _, ctx in CONTEXTS[1:]:
            docs.append(ctx(b))
        docs.append(b + '\n')
        docs.append('\n' + b)
    for a in BLOCKS:
        for b in BLOCKS:
            docs.append(a + '\n' + b)
            docs.append(a + '\n\n' + b)
    for a in EXTRA_BLOCKS:
        docs.append(a + '\n' + a)
        docs.append(a + '\n\nfoo')
        docs.append('foo\n' + a)
    return docs


_DIRECTED = None


def directed_docs():
    global _DIRECTED
    if _DIRECTED is None:
        _DIRECTED = list(dict.fromkeys(table_docs() + inline_docs() + block_docs()))
    return _DIRECTED


def seeded_docs(seed, n=1500):
    rng = random.Random(1200007 * (seed + 1))
    allb = BLOCKS + EXTRA_BLOCKS + [d for d in table_docs()[::97]]
    docs = []
    while len(docs) < n:
        parts = [rng.choice(allb) for _ in range(rng.randint(2, 4))]
        t = parts[0]
        for p in parts[1:]:
            t += rng.choice(['\n', '\n\n', '\n\n\n', '\n \n']) + p
        for _ in range(rng.choice([0, 0, 1, 1, 2])):
            t = rng.choice(CONTEXTS[1:])[1](t)
        if rng.random() < 0.3:
            t += '\n'
        docs.append(t)
    return docs


# ------------------------------------------------------------------ work units
def _extra_sets():
    import importlib
    out = []
    for name, mod, cls in EXTRA_SETS:
        try:
            out.append((name, getattr(importlib.import_module(mod), cls)))
        except Exception as e:  # noqa
            out.append((name, e))
    return out


def work(task):
    full = task[0] == 'fixed'
    xs = task[1] if full else task_strings(task)
    stats = {'evaluations': 0, 'distinct_nontrivial': 0, 'contract_evaluations': 0, 'traverse_calls': 0, 'samples': []}
    found, feats = {}, {}
    if not full:
        skip = _skip_set()
        xs = [x for x in xs if x not in skip]
    for setname, R in (SETS + _extra_sets() if full else SETS):
        try:
            if isinstance(R, Exception):
                raise R
            r = R()
        except Exception as e:  # noqa
            reset_state(tokens=True)
            found[('noraise', '')] = {'sets': [setname], 'msg': 'constructing %s: %s: %s' % (setname, type(e).__name__, e), 'x': ''}
            continue
        with r:
            for x in xs:
                stats['contract_evaluations'] += 1
                try:
                    bad, nt, nc, fs = check_doc(x, setname, r, full)
                except RecursionError:
                    raise
                except Exception as e:  # noqa
                    reset_state()
                    bad, nt, nc, fs = [('noraise', '%s: %s' % (type(e).__name__, e))], False, 0, ()
                stats['traverse_calls'] += nc
                if setname == 'Html':
                    stats['evaluations'] += 1
                    stats['distinct_nontrivial'] += 1 if nt else 0
                if fs:
                    feats.setdefault(x, set()).update(fs)
                for clause, msg in bad:
                    e = found.setdefault((clause, x), {'sets': [], 'msg': msg, 'x': x})
                    if setname not in e['sets']:
                        e['sets'].append(setname)
        reset_state(tokens=True)
    fails = []
    for (clause, x), e in found.items():
        klass = 'c01:' + e['msg'].split(':')[0] if clause == 'noraise' else classify(clause, e['msg'])
        fails.append({'key': '%s|%r' % ('noraise' if clause == 'noraise' else 'c12-' + clause, x),
                      'contract': 'noraise' if clause == 'noraise' else 'c12-' + clause, 'class': klass, 'input': x,
                      'token_sets': e['sets'], 'observed': e['msg'], 'expected': 'clause %s of well_formed holds' % clause,
                      'replay': 'from mistletoe import Document; from mistletoe.ast_renderer import get_ast\n'
                                'print(get_ast(Document(%r)))' % x})
    by_class = {}
    for f in fails:
        by_class[f['class']] = by_class.get(f['class'], 0) + 1
    cov = {}
    for fs in feats.values():
        for k in fs:
            cov[k] = cov.get(k, 0) + 1
    if task[0] == 'alpha' and xs and len(task[3]) == 1:
        stats['samples'] = [xs[len(xs) // 3]]
    elif full and len(task) > 2 and task[2] == 'directed' and xs:
        stats['samples'] = [xs[len(xs) // 2]]
    stats.update({'failures': keep_smallest(fails, MAX_KEEP), 'failures_total': len(fails), 'by_class': by_class, 'coverage': cov})
    return stats


_SPEC = None
_SKIP = None


def _spec_set():
    global _SPEC
    if _SPEC is None:
        _SPEC = {e['markdown'] for e in spec_examples()}
    return _SPEC


def _skip_set():
    """Strings of the ALPHA enumeration that are evaluated (with the full grid) in the fixed part."""
    global _SKIP
    if _SKIP is None:
        _SKIP = set(_spec_set()) | {x for x in directed_docs() if len(x) <= 6}
    return _SKIP


def run(tier, seed, workers):
    n28, n12 = (4, 6) if tier == 'thorough' else (3, 5)
    spec = sorted(_spec_set())
    directed = [x for x in directed_docs() if x not in _spec_set()]
    dset = set(directed) | set(spec)
    seeded = [x for x in dict.fromkeys(seeded_docs(seed, 6000 if tier == 'thorough' else 1500)) if x not in dset]
    nfix = 96
    fixed = [('fixed', spec[i::16], 'spec') for i in range(16)] + \
            [('fixed', directed[i::nfix], 'directed') for i in range(nfix)] + \
            [('fixed', seeded[i::16], 'seeded') for i in range(16)]
    alpha = alpha_tasks(n28, n12)
    # interleave the (heavier) fixed units with the alpha units for load balance
    ts, step = [], max(1, len(alpha) // len(fixed))
    for i, t in enumerate(fixed):
        ts.append(t)
        ts.extend(alpha[i * step:(i + 1) * step])
    ts.extend(alpha[len(fixed) * step:])
    res = pool_map(work, ts, workers)
    out = merge(res)
    by_class, cov = {}, {}
    for r in res:
        for k, v in r['by_class'].items():
            by_class[k] = by_class.get(k, 0) + v
        for k, v in r['coverage'].items():
            cov[k] = cov.get(k, 0) + v
    out['samples'] = [s for r, t in zip(res, ts) if t[0] == 'fixed' for s in r.get('samples', [])][:4] + out['samples'][:4]
    out.update({
        'domain': '652 spec examples ∪ %d directed documents (tables with short/over-long rows and headers in 8 contexts, '
                  'inline specimens x 15 leaf contexts, block specimens x 12 nesting contexts, all ordered pairs of 46 block '
                  'specimens; same for every seed) ∪ %d seeded random compositions ∪ ALPHA(SIGMA28 [27 distinct characters],%d) '
                  '∪ ALPHA(SIGMA12,%d); token sets of Html, Markdown, LaTeX, XWiki20 and Ast renderers for every input, plus '
                  'GithubWiki, Jira and MathJax for the spec/directed/seeded part' % (len(directed), len(seeded), n28, n12),
        'rule': 'exhaustive except for the seeded part (seed selects the %d random compositions); evaluations = distinct '
                'inputs, contract_evaluations = input x token set; non-trivial = the Html-token-set tree has more than two '
                'tokens below the document; traverse_calls = calls of utils.traverse compared with the independent walk; '
                'coverage = number of spec/directed/seeded inputs whose tree (any token set) shows the feature '
                '(edge:Parent>Child, table-source-<shape of the source rows>@where, table-row-<cells vs columns in the tree>@where, empty:Kind)' % len(seeded),
        'exhaustive': False, 'failures_total': sum(r['failures_total'] for r in res),
        'traverse_calls': sum(r['traverse_calls'] for r in res),
        'failures_by_class': dict(sorted(by_class.items(), key=lambda kv: -kv[1])),
        'coverage': dict(sorted(cov.items())),
        'failures': keep_smallest(out['failures'], MAX_KEEP)})
    return out
