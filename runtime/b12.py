"""C12 (bounded): the token tree is well-formed and its generic views are faithful.

Postconditions of Document(x), evaluated under the token sets of HtmlRenderer, MarkdownRenderer,
LaTeXRenderer, XWiki20Renderer (parse inside the renderer's context) and AstRenderer:

 tree      every token reachable through .children is reached once (no sharing, no cycle)
 parent    child.parent is the token that lists it
 kinds     List>ListItem, Table>TableRow (+ header is a TableRow), TableRow>TableCell;
           Paragraph/Heading/SetextHeading/TableCell > span tokens only; Document/Quote/ListItem > block
           tokens only; BlockCode/CodeFence/HtmlBlock and InlineCode/AutoLink/EscapeSequence > exactly one
           RawText; no span token contains a block token
 ranges    Heading.level in 1..6; SetextHeading.level in {1,2}; TableCell.align in {None,0,1};
           List.start is None iff the first item's leader is one of - + * , else the leader is
           digits + '.'|')' and start == int(digits)
 traverse  mistletoe.utils.traverse(doc) with default arguments, include_source=True, depth=0..3 and three
           klass filters yields exactly the (node, parent, depth) triples of an independent recursive walk,
           each once
 ast       json.loads(AstRenderer().render(doc)) (own context) resp. json.loads(json.dumps(get_ast(doc)))
           mirrors the tree: type names, children (recursively, same order), header, line numbers
"""
import json

from runtime.common import use_repo, spec_examples, pool_map, merge
from runtime.mtutil import reset_state, alpha_tasks, task_strings, keep_smallest

use_repo()
from mistletoe import Document, block_token as bt, span_token as st  # noqa: E402
from mistletoe.utils import traverse  # noqa: E402
from mistletoe.ast_renderer import AstRenderer, get_ast  # noqa: E402
from mistletoe.html_renderer import HtmlRenderer  # noqa: E402
from mistletoe.markdown_renderer import MarkdownRenderer  # noqa: E402
from mistletoe.latex_renderer import LaTeXRenderer  # noqa: E402
from mistletoe.contrib.xwiki20_renderer import XWiki20Renderer  # noqa: E402

MAX_KEEP = 400
SETS = [('Html', HtmlRenderer), ('Markdown', MarkdownRenderer), ('LaTeX', LaTeXRenderer), ('XWiki20', XWiki20Renderer),
        ('Ast', AstRenderer)]
LEAF_BLOCKS = ('Paragraph', 'Heading', 'SetextHeading', 'TableCell')
CONTAINERS = ('Document', 'Quote', 'ListItem')
ONE_RAW = ('BlockCode', 'CodeFence', 'HtmlBlock', 'InlineCode', 'AutoLink', 'EscapeSequence')
KLASSES = (bt.Paragraph, st.RawText, bt.ListItem)


def walk(doc):
    """Independent recursive walk: [(node, parent, depth)] for every token below doc, plus the first
    object met twice (or None)."""
    out, seen, dup = [], {id(doc)}, []

    def rec(tok, depth):
        for c in tok.children or ():
            if id(c) in seen:
                dup.append(c)
                continue
            seen.add(id(c))
            out.append((c, tok, depth + 1))
            rec(c, depth + 1)
    rec(doc, 0)
    return out, (dup[0] if dup else None)


def well_formed(doc, nodes):
    """-> list of (clause, message)."""
    bad = []
    for tok, par, _ in [(doc, None, 0)] + nodes:
        name = type(tok).__name__
        ch = tok.children
        if par is not None and tok.parent is not par:
            bad.append(('parent', '%s under %s has parent %s' % (name, type(par).__name__, type(tok.parent).__name__)))
        kids = list(ch) if ch is not None else []
        kn = [type(c).__name__ for c in kids]
        is_span = isinstance(tok, st.SpanToken)
        if is_span and any(isinstance(c, bt.BlockToken) for c in kids):
            bad.append(('kinds', 'span %s contains block %s' % (name, kn)))
        if name == 'List' and (not kids or any(type(c) is not bt.ListItem for c in kids)):
            bad.append(('kinds', 'List children %s' % kn))
        if name == 'Table':
            if any(type(c) is not bt.TableRow for c in kids):
                bad.append(('kinds', 'Table children %s' % kn))
            if 'header' in vars(tok) and type(tok.header) is not bt.TableRow:
                bad.append(('kinds', 'Table.header is %s' % type(tok.header).__name__))
        if name == 'TableRow' and any(type(c) is not bt.TableCell for c in kids):
            bad.append(('kinds', 'TableRow children %s' % kn))
        if name in LEAF_BLOCKS and (ch is None or any(not isinstance(c, st.SpanToken) for c in kids)):
            bad.append(('kinds', '%s children %s' % (name, kn if ch is not None else None)))
        if name in CONTAINERS and (ch is None or any(not isinstance(c, bt.BlockToken) for c in kids)):
            bad.append(('kinds', '%s children %s' % (name, kn if ch is not None else None)))
        if name in ONE_RAW and kn != ['RawText']:
            bad.append(('kinds', '%s children %s' % (name, kn)))
        if name == 'Heading' and not (type(tok.level) is int and 1 <= tok.level <= 6):
            bad.append(('ranges', 'Heading.level %r' % (tok.level,)))
        if name == 'SetextHeading' and tok.level not in (1, 2):
            bad.append(('ranges', 'SetextHeading.level %r' % (tok.level,)))
        if name == 'TableCell' and not (tok.align is None or (type(tok.align) is int and tok.align in (0, 1))):
            bad.append(('ranges', 'TableCell.align %r' % (tok.align,)))
        if name == 'List' and kids and type(kids[0]) is bt.ListItem:
            leader = kids[0].leader
            if leader in ('-', '+', '*'):
                ok = tok.start is None
            else:
                digits = leader[:-1]
                ok = (leader[-1:] in ('.', ')') and digits != '' and digits.isdigit()
                      and type(tok.start) is int and tok.start == int(digits))
            if not ok:
                bad.append(('ranges', 'List.start %r with first leader %r' % (tok.start, leader)))
    return bad


def check_traverse(doc, nodes):
    bad = []
    ref = [(id(n), id(p), d) for n, p, d in nodes]

    def got(**kw):
        return sorted((id(r.node), id(r.parent) if r.parent is not None else None, r.depth) for r in traverse(doc, **kw))
    if got() != sorted(ref):
        bad.append(('traverse', 'default arguments'))
    if got(include_source=True) != sorted(ref + [(id(doc), None, 0)]):
        bad.append(('traverse', 'include_source=True'))
    for k in (0, 1, 2, 3):
        if got(depth=k) != sorted(t for t in ref if t[2] <= k):
            bad.append(('traverse', 'depth=%d' % k))
    for K in KLASSES:
        want = sorted((id(n), id(p), d) for n, p, d in nodes if isinstance(n, K))
        if got(klass=K) != want:
            bad.append(('traverse', 'klass=%s' % K.__name__))
        if got(klass=K, include_source=True, depth=2) != sorted(t for t in want if t[2] <= 2):
            bad.append(('traverse', 'klass=%s,include_source,depth=2' % K.__name__))
    return bad


def mirror(tok, node, path='$'):
    if not isinstance(node, dict) or node.get('type') != type(tok).__name__:
        return '%s: type %r for %s' % (path, node.get('type') if isinstance(node, dict) else node, type(tok).__name__)
    if getattr(tok, 'line_number', None) is not None and 'line_number' in type(tok).repr_attributes \
            and node.get('line_number') != tok.line_number:
        return '%s: line_number %r vs %r' % (path, node.get('line_number'), tok.line_number)
    if 'header' in vars(tok):
        m = mirror(tok.header, node.get('header'), path + '.header')
        if m:
            return m
    ch = tok.children
    if ch is None:
        return None if 'children' not in node else '%s: children present for a leaf' % path
    nc = node.get('children')
    if not isinstance(nc, list) or len(nc) != len(ch):
        return '%s: %s children vs %d' % (path, len(nc) if isinstance(nc, list) else nc, len(ch))
    for i, (c, n) in enumerate(zip(ch, nc)):
        m = mirror(c, n, '%s/%s[%d]' % (path, type(tok).__name__, i))
        if m:
            return m
    return None


def check_doc(x, setname, renderer):
    """-> (list of (clause, message), nontrivial)"""
    doc = Document(x)
    nodes, dup = walk(doc)
    bad = []
    if dup is not None:
        bad.append(('tree', '%s object reachable twice' % type(dup).__name__))
    bad += well_formed(doc, nodes)
    bad += check_traverse(doc, nodes)
    try:
        text = renderer.render(doc) if setname == 'Ast' else json.dumps(get_ast(doc))
        m = mirror(doc, json.loads(text))
        if m:
            bad.append(('ast', m))
    except RecursionError:
        raise
    except Exception as e:  # noqa
        bad.append(('ast', '%s: %s' % (type(e).__name__, e)))
    return bad, len(nodes) > 2


def classify(clause, msg):
    if clause == 'ranges' and msg.startswith('List.start'):
        leader = msg.rsplit(' ', 1)[1].strip("'\"")
        return 'list-marker-without-digits' if leader in ('.', ')') else 'list-start-mismatch'
    if clause == 'ast':
        return 'ast-mirror'
    if clause == 'parent':
        return 'parent-link'
    if clause == 'traverse':
        return 'traverse:' + msg
    return clause + ':' + msg.split(' ')[0]


def work(task):
    xs = task[1] if task[0] == 'fixed' else task_strings(task)
    spec = _spec_set() if task[0] != 'fixed' else ()
    stats = {'evaluations': 0, 'distinct_nontrivial': 0, 'contract_evaluations': 0, 'samples': []}
    found = {}
    xs = [x for x in xs if x not in spec]
    for setname, R in SETS:
        try:
            r = R()
        except Exception as e:  # noqa
            reset_state(tokens=True)
            found[('noraise', '')] = {'sets': [setname], 'msg': 'constructing %s: %s: %s' % (setname, type(e).__name__, e), 'x': ''}
            continue
        with r:
            for x in xs:
                stats['contract_evaluations'] += 1
                try:
                    bad, nt = check_doc(x, setname, r)
                except RecursionError:
                    raise
                except Exception as e:  # noqa
                    reset_state()
                    bad, nt = [('noraise', '%s: %s' % (type(e).__name__, e))], False
                if setname == 'Html':
                    stats['evaluations'] += 1
                    stats['distinct_nontrivial'] += 1 if nt else 0
                for clause, msg in bad:
                    e = found.setdefault((clause, x), {'sets': [], 'msg': msg, 'x': x})
                    if setname not in e['sets']:
                        e['sets'].append(setname)
        reset_state(tokens=True)
    fails = []
    for (clause, x), e in found.items():
        klass = 'c01:' + e['msg'].split(':')[0] if clause == 'noraise' else classify(clause, e['msg'])
        fails.append({'key': '%s|%r' % ('noraise' if clause == 'noraise' else 'c12-' + clause, x),
                      'contract': 'noraise' if clause == 'noraise' else 'c12-' + clause, 'class': klass, 'input': x,
                      'token_sets': e['sets'], 'observed': e['msg'], 'expected': 'clause %s of well_formed holds' % clause,
                      'replay': 'from mistletoe import Document; from mistletoe.ast_renderer import get_ast\n'
                                'print(get_ast(Document(%r)))' % x})
    by_class = {}
    for f in fails:
        by_class[f['class']] = by_class.get(f['class'], 0) + 1
    if task[0] == 'alpha' and xs and len(task[3]) == 1:
        stats['samples'] = [xs[len(xs) // 3]]
    stats.update({'failures': keep_smallest(fails, MAX_KEEP), 'failures_total': len(fails), 'by_class': by_class})
    return stats


_SPEC = None


def _spec_set():
    global _SPEC
    if _SPEC is None:
        _SPEC = {e['markdown'] for e in spec_examples()}
    return _SPEC


def run(tier, seed, workers):
    n28, n12 = (4, 6) if tier == 'thorough' else (3, 5)
    spec = sorted(_spec_set())
    ts = [('fixed', spec[i::16]) for i in range(16)] + alpha_tasks(n28, n12)
    res = pool_map(work, ts, workers)
    out = merge(res)
    by_class = {}
    for r in res:
        for k, v in r['by_class'].items():
            by_class[k] = by_class.get(k, 0) + v
    out.update({
        'domain': '652 spec examples ∪ ALPHA(SIGMA28 [27 distinct characters],%d) ∪ ALPHA(SIGMA12,%d) x token sets of '
                  'Html, Markdown, LaTeX, XWiki20 and Ast renderers' % (n28, n12),
        'rule': 'exhaustive (seed unused); evaluations = distinct inputs, contract_evaluations = input x token set; '
                'non-trivial = the Html-token-set tree has more than two tokens below the document',
        'exhaustive': True, 'failures_total': sum(r['failures_total'] for r in res),
        'failures_by_class': dict(sorted(by_class.items(), key=lambda kv: -kv[1])),
        'failures': keep_smallest(out['failures'], MAX_KEEP)})
    return out
