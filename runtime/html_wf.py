"""Independent strict well-formedness monitor for the HTML the renderer may emit (property C08).

Nothing in this file imports mistletoe.  The grammar accepted is written from the property
statement, not from the renderer:

    output  := ( text | ref | open-tag | close-tag | void-tag )*
    text    := any characters except '<' '>' '&'
    ref     := '&amp;' | '&lt;' | '&gt;' | '&quot;' | '&#x27;'
    open    := '<' NAME ( ' ' ATTR '="' VALUE '"' )* '>'            NAME in NONVOID
    void    := '<' NAME ( ' ' ATTR '="' VALUE '"' )* ' />'          NAME in VOID
    close   := '</' NAME '>'
    VALUE   := characters except '"' '<' '>' ; every '&' starts one of the five refs (reported
               under the separate clause 'attr-amp', because the property statement itself only
               forbids quote and angle brackets inside attribute values)

plus: tags properly nested, nothing left open, attributes only from the fixed set and only on the
tag that owns them, no duplicate attribute.

`check(out)` returns (violations, stats); a violation is a dict {code, pos, tag, attr, near}.
The scan stops at the first *syntactic* violation (what follows cannot be attributed reliably),
so violations[0] is always a root cause, never a knock-on effect.
"""
import re

NONVOID = frozenset(['p', 'h1', 'h2', 'h3', 'h4', 'h5', 'h6', 'blockquote', 'pre', 'code', 'ul',
                     'ol', 'li', 'table', 'thead', 'tbody', 'tr', 'th', 'td', 'em', 'strong',
                     'del', 'a'])
VOID = frozenset(['img', 'hr', 'br'])
ATTRS = frozenset(['href', 'title', 'src', 'alt', 'class', 'start', 'align'])
ATTRS_OF = {
    'a': frozenset(['href', 'title']),
    'img': frozenset(['src', 'alt', 'title']),
    'code': frozenset(['class']),
    'ol': frozenset(['start']),
    'th': frozenset(['align']),
    'td': frozenset(['align']),
}
REFS = ('&amp;', '&lt;', '&gt;', '&quot;', '&#x27;')

_TEXT = re.compile(r'[^<>&]+')
_REF = re.compile(r'&(?:amp|lt|gt|quot|#x27);')
_NAME = re.compile(r'[a-z][a-z0-9]*')
_ATTRNAME = re.compile(r'[a-z]+')
_VALUE = re.compile(r'[^"<>]*')
# fast path for a complete, syntactically perfect tag
_TAG = re.compile(r'<(/?)([a-z][a-z0-9]*)((?: [a-z]+="[^"<>]*")*)( /)?>')
_ATTR = re.compile(r' ([a-z]+)="([^"<>]*)"')
_BADAMP = re.compile(r'&(?!(?:amp|lt|gt|quot|#x27);)')


def _near(s, pos, w=24):
    return s[max(0, pos - w):pos + w]


def check(out):
    """Scan `out`; return (violations, stats)."""
    v = []
    stats = {'tags': 0, 'attrs': 0, 'refs': 0}
    stack = []
    pos = 0
    n = len(out)
    while pos < n:
        c = out[pos]
        if c == '<':
            m = _TAG.match(out, pos)
            if m is None:
                v.append(_diagnose_tag(out, pos))
                return v, stats
            closing, name, attrs, selfclose = m.group(1), m.group(2), m.group(3), m.group(4)
            stats['tags'] += 1
            if name not in NONVOID and name not in VOID:
                v.append({'code': 'tag-not-in-vocabulary', 'pos': pos, 'tag': name, 'attr': None,
                          'near': _near(out, pos)})
                return v, stats
            if closing:
                if attrs or selfclose or name in VOID:
                    v.append({'code': 'bad-closing-tag', 'pos': pos, 'tag': name, 'attr': None,
                              'near': _near(out, pos)})
                    return v, stats
                if not stack or stack[-1] != name:
                    v.append({'code': 'nesting', 'pos': pos, 'tag': name, 'attr': None,
                              'near': _near(out, pos),
                              'open': list(stack[-4:])})
                    return v, stats
                stack.pop()
            else:
                if name in VOID:
                    if not selfclose:
                        v.append({'code': 'void-not-selfclosed', 'pos': pos, 'tag': name,
                                  'attr': None, 'near': _near(out, pos)})
                        return v, stats
                else:
                    if selfclose:
                        v.append({'code': 'nonvoid-selfclosed', 'pos': pos, 'tag': name,
                                  'attr': None, 'near': _near(out, pos)})
                        return v, stats
                    stack.append(name)
                if attrs:
                    seen = set()
                    allowed = ATTRS_OF.get(name, frozenset())
                    for am in _ATTR.finditer(attrs):
                        an, av = am.group(1), am.group(2)
                        stats['attrs'] += 1
                        if an not in ATTRS:
                            v.append({'code': 'attr-not-in-vocabulary', 'pos': pos, 'tag': name,
                                      'attr': an, 'near': _near(out, pos)})
                            return v, stats
                        if an not in allowed:
                            v.append({'code': 'attr-on-wrong-tag', 'pos': pos, 'tag': name,
                                      'attr': an, 'near': _near(out, pos)})
                            return v, stats
                        if an in seen:
                            v.append({'code': 'attr-duplicate', 'pos': pos, 'tag': name,
                                      'attr': an, 'near': _near(out, pos)})
                            return v, stats
                        seen.add(an)
                        if '&' in av:
                            stats['refs'] += av.count('&')
                            if _BADAMP.search(av):
                                # weaker clause; does not stop the scan
                                v.append({'code': 'attr-amp', 'pos': pos, 'tag': name, 'attr': an,
                                          'near': _near(out, pos)})
            pos = m.end()
        elif c == '&':
            m = _REF.match(out, pos)
            if m is None:
                v.append({'code': 'text-raw-amp', 'pos': pos, 'tag': None, 'attr': None,
                          'near': _near(out, pos)})
                return v, stats
            stats['refs'] += 1
            pos = m.end()
        elif c == '>':
            v.append({'code': 'text-raw-gt', 'pos': pos, 'tag': None, 'attr': None,
                      'near': _near(out, pos)})
            return v, stats
        else:
            m = _TEXT.match(out, pos)
            pos = m.end()
    if stack:
        v.append({'code': 'unclosed', 'pos': n, 'tag': stack[-1], 'attr': None,
                  'near': _near(out, n), 'open': list(stack[-4:])})
    return v, stats


def _diagnose_tag(out, pos):
    """`out[pos] == '<'` but no well-formed tag starts here: say where it goes wrong."""
    p = pos + 1
    n = len(out)
    if p < n and out[p] == '/':
        p += 1
    m = _NAME.match(out, p)
    if m is None:
        return {'code': 'text-raw-lt', 'pos': pos, 'tag': None, 'attr': None,
                'near': _near(out, pos)}
    name = m.group(0)
    p = m.end()
    last_attr = None
    while True:
        if out.startswith('>', p) or out.startswith(' />', p):
            # cannot happen (the fast path would have matched) unless a closing tag has attrs
            return {'code': 'tag-syntax', 'pos': p, 'tag': name, 'attr': last_attr,
                    'near': _near(out, p)}
        if not out.startswith(' ', p):
            code = 'attr-value-terminated-early' if last_attr else 'tag-syntax'
            return {'code': code, 'pos': p, 'tag': name, 'attr': last_attr,
                    'near': _near(out, p)}
        m = _ATTRNAME.match(out, p + 1)
        if m is None or not out.startswith('="', m.end()):
            code = 'attr-value-terminated-early' if last_attr else 'tag-syntax'
            return {'code': code, 'pos': p, 'tag': name, 'attr': last_attr,
                    'near': _near(out, p)}
        an = m.group(0)
        q = _VALUE.match(out, m.end() + 2).end()
        if q >= n or out[q] != '"':
            return {'code': 'attr-value-has-angle-bracket-or-unterminated', 'pos': q, 'tag': name,
                    'attr': an, 'near': _near(out, q)}
        last_attr = an
        p = q + 1


# ---------------------------------------------------------------------------------------------
# Setting raw HTML aside

PLACEHOLDER = '\ue000'


def residues(out, pieces, limit=64):
    """Yield `out` with the strings of `pieces` (in this order, non-overlapping) replaced by a
    neutral placeholder character.  The first residue uses the leftmost possible occurrence of
    every piece; further residues (at most `limit` in total) use later occurrences, so that a
    piece whose text also occurs earlier in genuine output is not mis-attributed.  If some piece
    cannot be found at all nothing (more) is yielded."""
    pieces = [p for p in pieces if p]
    count = [0]

    def rec(i, start, acc):
        if count[0] >= limit:
            return
        if i == len(pieces):
            count[0] += 1
            yield ''.join(acc) + out[start:]
            return
        p = pieces[i]
        k = out.find(p, start)
        while k != -1 and count[0] < limit:
            acc.append(out[start:k])
            acc.append(PLACEHOLDER)
            yield from rec(i + 1, k + len(p), acc)
            acc.pop()
            acc.pop()
            k = out.find(p, k + 1)

    yield from rec(0, 0, [])


def check_with_raw(out, pieces):
    """Monitor verdict for an output that legitimately contains the verbatim `pieces`.
    Returns (violations, stats, found) — `found` False when the pieces could not be located in
    order (then the violations are those of the unmodified output plus a marker)."""
    if not pieces:
        v, st = check(out)
        return v, st, True
    first = None
    for res in residues(out, pieces):
        v, st = check(res)
        if first is None:
            first = (v, st)
        if not [x for x in v if x['code'] != 'attr-amp']:
            return v, st, True
    if first is not None:
        # none of the first residues is accepted: the enumeration above varies the LAST pieces
        # first and gives up after a fixed number of residues, which is not enough for a long
        # document in which an early piece (say '</a>') also occurs in genuine output.  Search
        # systematically, pruning on the prefix.
        hit = _search(out, [p for p in pieces if p])
        if hit is not None:
            return hit[0], hit[1], True
    if first is None:
        v, st = check(out)
        return ([{'code': 'raw-piece-not-found', 'pos': 0, 'tag': None, 'attr': None,
                  'near': repr(pieces)[:80]}] + v), st, False
    return first[0], first[1], True


def _hard(v, prefix=False):
    skip = ('attr-amp', 'unclosed') if prefix else ('attr-amp',)
    return [x for x in v if x['code'] not in skip]


def _search(out, pieces, budget=4000):
    """Depth-first search for an assignment of the pieces to occurrences (in order, not
    overlapping) whose residue the monitor accepts.  A candidate occurrence is only followed when
    the residue *up to it* is accepted as a prefix (nothing but still-open tags); because the scan
    stops at the first violation, a bad prefix stays bad for every later occurrence of the same
    piece, so that branch is cut.  A piece starts where complete genuine output ends (raw HTML is
    never inside a tag of the renderer), hence cutting the output there is sound.
    -> (violations, stats) of an accepted residue, or None."""
    count = [0]

    def rec(i, start, acc):
        if i == len(pieces):
            v, st = check(acc + out[start:])
            return (v, st) if not _hard(v) else None
        p = pieces[i]
        k = out.find(p, start)
        while k != -1:
            count[0] += 1
            if count[0] > budget:
                return None
            pref = acc + out[start:k]
            v, _st = check(pref)
            if _hard(v, prefix=True):
                return None
            r = rec(i + 1, k + len(p), pref + PLACEHOLDER)
            if r is not None:
                return r
            k = out.find(p, k + 1)
        return None

    return rec(0, 0, '')
