"""Independent, spec-derived *inertness* predicate for C14 (no mistletoe imports).

`inert(lines)` is True when, according to CommonMark 0.30 (plus the two GFM extensions that the
HTML renderer has switched on by default: tables and `~~strikethrough~~`), the given lines form
ONE paragraph whose inline content is plain text only, i.e. the expected rendering is
`<p>` + escape(lines stripped of leading/trailing blanks, joined by LF) + `</p>`.

The predicate is exact where that is cheap and errs to the side of "not inert" (= case excluded
from the property's domain, never a failure) where the spec construct is complicated.  Every
clause cites the section it comes from.  `why_not_inert(lines)` returns the name of the first
clause that fires (None when inert).

Lines are given WITHOUT line ending, contain no TAB and no line-ending characters, and are not
blank.
"""
import functools
import re
from html.entities import html5 as _HTML5

from runtime.spec_emphasis import flanking, is_unicode_whitespace, is_punctuation

ASCII_PUNCT = '!"#$%&\'()*+,-./:;<=>?@[\\]^_`{|}~'

# 4.1 thematic break: 0-3 spaces, three or more matching -, _ or *, optionally spaces/tabs between
RE_THEMATIC = re.compile(r'^ {0,3}(?:(?:-[ \t]*){3,}|(?:_[ \t]*){3,}|(?:\*[ \t]*){3,})$')
# 4.2 ATX heading: 0-3 spaces, 1-6 '#', then space/tab or end of line
RE_ATX = re.compile(r'^ {0,3}#{1,6}(?:[ \t]|$)')
# 4.3 setext heading underline: 0-3 spaces, '='+ or '-'+, trailing spaces/tabs
RE_SETEXT = re.compile(r'^ {0,3}(?:=+|-+)[ \t]*$')
# 4.5 fenced code: 0-3 spaces, >=3 backticks (info string without backtick) or >=3 tildes
RE_FENCE = re.compile(r'^ {0,3}(?:`{3,}[^`]*$|~{3,})')
# 4.6 HTML block start conditions 1-7 all begin with '<' followed by a letter, '/', '!' or '?'
RE_HTMLBLOCK = re.compile(r'^ {0,3}<[A-Za-z/!?]')
# 5.1 block quote marker
RE_QUOTE = re.compile(r'^ {0,3}>')
# 5.2 list markers: bullet -, +, * ; ordered 1-9 ASCII digits followed by . or ) ; a marker must be
# followed by a space/tab or the end of the line
RE_BULLET = re.compile(r'^ {0,3}[-+*](?:[ \t]|$)')
RE_ORDERED = re.compile(r'^ {0,3}([0-9]{1,9})[.)](?:[ \t]|$)')
RE_EMPTY_ITEM = re.compile(r'^ {0,3}(?:[-+*]|[0-9]{1,9}[.)])[ \t]*$')
# 4.7 link reference definition: begins with a link label followed by ':' (conservative: any
# line that begins with '[' and has ']:' somewhere)
RE_LINKDEF = re.compile(r'^ {0,3}\[.*\]:')
# GFM 4.10 delimiter row: cells of -+ with optional leading/trailing colon, optional outer pipes
RE_TABLE_DELIM = re.compile(r'^ {0,3}\|?[ \t]*:?-+:?[ \t]*(?:\|[ \t]*:?-+:?[ \t]*)*\|?[ \t]*$')

RE_ENTITY = re.compile(r'&(#[0-9]{1,7};|#[xX][0-9a-fA-F]{1,6};|[A-Za-z][A-Za-z0-9]*;)')


def _indent(line):
    return len(line) - len(line.lstrip(' '))


@functools.lru_cache(maxsize=None)
def first_line_block(line):
    """Name of the block construct (other than paragraph) that `line` starts as the FIRST line of
    a block at document level, else None."""
    if _indent(line) >= 4:
        return 'indented-code(4.4)'
    if RE_THEMATIC.match(line):
        return 'thematic-break(4.1)'
    if RE_ATX.match(line):
        return 'atx-heading(4.2)'
    if RE_FENCE.match(line):
        return 'fenced-code(4.5)'
    if RE_HTMLBLOCK.match(line):
        return 'html-block(4.6)'
    if RE_LINKDEF.match(line):
        return 'link-reference-definition(4.7)'
    if RE_QUOTE.match(line):
        return 'block-quote(5.1)'
    if RE_BULLET.match(line) or RE_ORDERED.match(line):
        return 'list-item(5.2)'
    return None


@functools.lru_cache(maxsize=None)
def continuation_line_block(line):
    """Name of the construct that ends / transforms a paragraph when `line` follows a paragraph
    line, else None (the line is paragraph continuation text)."""
    if _indent(line) >= 4:
        return None                     # 4.4: an indented code block cannot interrupt a paragraph
    if RE_SETEXT.match(line):
        return 'setext-underline(4.3)'
    if RE_THEMATIC.match(line):
        return 'thematic-break(4.1)'
    if RE_ATX.match(line):
        return 'atx-heading(4.2)'
    if RE_FENCE.match(line):
        return 'fenced-code(4.5)'
    if RE_HTMLBLOCK.match(line):
        return 'html-block(4.6)'        # conservative: type 7 cannot interrupt a paragraph
    if RE_QUOTE.match(line):
        return 'block-quote(5.1)'
    # 5.2: to interrupt a paragraph a list item must not be empty and, if ordered, start with 1
    if not RE_EMPTY_ITEM.match(line):
        if RE_BULLET.match(line):
            return 'list-item(5.2)'
        m = RE_ORDERED.match(line)
        if m and int(m.group(1)) == 1:
            return 'list-item(5.2)'
    if RE_TABLE_DELIM.match(line):
        return 'table-delimiter-row(GFM)'
    return None


def _runs(s, ch):
    i, n = 0, len(s)
    while i < n:
        if s[i] == ch:
            j = i
            while j < n and s[j] == ch:
                j += 1
            yield i, j
            i = j
        else:
            i += 1


def _tilde_flanking(s, a, b):
    before = s[a - 1] if a > 0 else '\n'
    after = s[b] if b < len(s) else '\n'
    b_ws, a_ws = is_unicode_whitespace(before), is_unicode_whitespace(after)
    b_p, a_p = is_punctuation(before), is_punctuation(after)
    left = (not a_ws) and ((not a_p) or b_ws or b_p)
    right = (not b_ws) and ((not b_p) or a_ws or a_p)
    return left, right


def inline_trigger(lines):
    """Name of the first inline construct that could be recognised in the paragraph made of
    `lines`, else None."""
    # 6.7 hard line break: two or more spaces, or a backslash, at the end of a non-final line
    for ln in lines[:-1]:
        if ln.endswith('  ') or ln.endswith('\\'):
            return 'hard-line-break(6.7)'
    s = '\n'.join(ln.strip(' ') for ln in lines)
    # 2.4 backslash escapes: a backslash before an ASCII punctuation character
    for i, c in enumerate(s):
        if c == '\\' and i + 1 < len(s) and s[i + 1] in ASCII_PUNCT:
            return 'backslash-escape(2.4)'
    # 2.5 entity and numeric character references
    for m in RE_ENTITY.finditer(s):
        body = m.group(1)
        if body[0] == '#' or body in _HTML5:
            return 'character-reference(2.5)'
    # 6.1 code span: two backtick strings of equal length
    lens = [b - a for a, b in _runs(s, '`')]
    if len(lens) != len(set(lens)):
        return 'code-span(6.1)'
    # 6.5 autolinks / 6.6 raw HTML: '<' + letter, '/', '!' or '?' ... and a later '>'
    for i, c in enumerate(s):
        if c == '<' and i + 1 < len(s) and (s[i + 1].isalpha() or s[i + 1] in '/!?') and '>' in s[i + 2:]:
            return 'autolink-or-raw-html(6.5/6.6)'
    # 6.3/6.4 links and images: with no link reference definitions in the document only inline
    # links `[..](..` and (conservatively) `[..][` could be links
    first_open = s.find('[')
    if first_open >= 0:
        for j in range(first_open + 1, len(s) - 1):
            if s[j] == ']' and s[j + 1] in '([':
                return 'link(6.3)'
    # 6.2 emphasis: an opener run followed by a closer run of the same character (rule of three
    # ignored: conservative)
    for ch in '*_':
        seen_opener = False
        for a, b in _runs(s, ch):
            can_open, can_close = flanking(s, a, b)
            if can_close and seen_opener:
                return 'emphasis(6.2)'
            if can_open:
                seen_opener = True
    # GFM strikethrough (extension; its text says "wrapped in a matching pair of one or two
    # tildes", implementations add flanking conditions): conservative -- two runs of two or more
    # tildes anywhere, or a left-flanking tilde run followed by a right-flanking tilde run
    if sum(1 for a, b in _runs(s, '~') if b - a >= 2) >= 2:
        return 'strikethrough(GFM)'
    seen_opener = False
    for a, b in _runs(s, '~'):
        left, right = _tilde_flanking(s, a, b)
        if right and seen_opener:
            return 'strikethrough(GFM)'
        if left:
            seen_opener = True
    return None


def why_not_inert(lines):
    if not lines:
        return 'empty'
    for ln in lines:
        if ln.strip(' ') == '':
            return 'blank-line'
        if '\t' in ln or '\n' in ln or '\r' in ln:
            return 'outside-domain-character'
    r = first_line_block(lines[0])
    if r:
        return r
    for ln in lines[1:]:
        r = continuation_line_block(ln)
        if r:
            return r
    return inline_trigger(lines)


def inert(lines):
    return why_not_inert(lines) is None


def escape(s):
    return s.replace('&', '&amp;').replace('<', '&lt;').replace('>', '&gt;')


def expected_html(lines):
    # 4.8: leading spaces and tabs of every line are skipped; trailing spaces go with the soft break (6.8)
    return '<p>' + escape('\n'.join(ln.lstrip(' \t').rstrip(' ') for ln in lines)) + '</p>\n'


# (lines, inert?) -- hand-derived from the spec; checked at start-up by b14.run
SELFTEST = [
    (['foo bar'], True),
    (['snake_case and a_b_c'], True),
    (['__init__'], False),                       # <strong>init</strong>
    (['2*3*4'], False),                          # 2<em>3</em>4
    (['2*3 = 6'], True),
    (['a * b * c'], True),                       # neither run is flanking
    (['* * *'], False), (['***'], False), (['---'], False), (['___'], False),
    (['- foo'], False), (['+ foo'], False), (['* foo'], False), (['-'], False), (['+'], False),
    (['foo', '+'], True),                        # empty item cannot interrupt a paragraph (ex. 285)
    (['foo', '*'], True),
    (['foo', '-'], False),                       # setext h2
    (['foo', '='], False), (['foo', '=='], False), (['foo', '= ='], True), (['foo', '=-='], True),
    (['='], True), (['=='], True), (['--'], True), (['=-='], True),
    (['foo', '--'], False),
    (['1. foo'], False), (['1) foo'], False), (['2. foo'], False), (['1.'], False),
    (['foo', '2. bar'], True),                   # ex. 304: only start number 1 interrupts
    (['foo', '1. bar'], False),
    (['foo', '1.'], True),
    (['3.14 is pi'], True), (['(1) foo'], True), (['a. foo'], True), (['1.5) x'], True),
    (['. foo'], True), ([') foo'], True), (['.'], True), ([')'], True),
    (['1234567890. foo'], True),                 # ten digits: not a list marker
    (['123456789. foo'], False),
    (['\u0661. foo'], True),                     # ARABIC-INDIC DIGIT ONE is not an ASCII digit
    (['# foo'], False), (['#'], False), (['#hashtag'], True), (['####### x'], True), (['C# x'], True),
    (['> foo'], False), (['>'], False), (['a>b'], True), (['foo', '> x'], False),
    (['~~~'], False), (['foo ~~~ bar'], True), (['~'], True), (['a ~ b ~ c'], True), (['~~ a ~~'], False), (['~~a~~'], False),
    (['~a~'], False), (['a ~~ b'], True),
    (['a | b', 'c | d'], True), (['a | b', '| - |'], False), (['| - |', 'foo'], True),
    (['a |', '     --- |'], True),             # >= 4 spaces: paragraph continuation text, no block start
    (['a', '     b', '     --- |'], True),
    (['[ x'], True), (['x ]'], True), (['[x]'], True), (['[x](y)'], False), (['[ ]( )'], False),
    (['[x][y]'], False), (['[x]: y'], False), (['foo [x]: y'], True), ([']( x'], True),
    (['AT&T'], True), (['&copy;'], False), (['&copy'], True), (['&x;'], True), (['&#65;'], False),
    (['&#;'], True), (['R&D;'], True),
    (['a<b'], True), (['a<b c>d'], False), (['<3'], True), (['1 < 2 > 1'], True), (['<div'], False),
    (['C:\\dir'], True), (['a \\* b'], False), (['foo\\', 'bar'], False), (['foo  ', 'bar'], False),
    (['foo ', 'bar'], True), (['foo', '     bar'], True), (['    foo'], False), (['   foo'], True),
    (['`'], True), (['` a ``'], True), (['` a `'], False),
    (['*star and star*'], False), (['star* and *star'], True), (['_private'], True),
    (['a_ _b'], True), (['_a b_'], False),
]


def selftest():
    bad = [(l, e, why_not_inert(l)) for l, e in SELFTEST if inert(l) != e]
    if bad:
        raise AssertionError('inertness predicate self-test failed: %r' % bad)
    return len(SELFTEST)
