"""Independent reference model of CommonMark 0.30 emphasis / strong emphasis.

Written from the specification text only (no mistletoe imports, no mistletoe code):

* spec 0.30 section 2.1: "Unicode whitespace character" = general category Zs, or TAB, LF, FF, CR;
  "Unicode punctuation character" = ASCII punctuation or general category Pc Pd Pe Pf Pi Po Ps;
* spec 0.30 section 6.2: delimiter runs, left-/right-flanking, rules 1-8 (can open / can close
  for `*` and `_`), rules 9/10 = the "rule of three" on the lengths of the *delimiter runs*
  (i.e. the ORIGINAL run lengths, not what is left after a partial match);
* spec 0.30 appendix "Phase 2: inline structure", procedure *process emphasis*, with
  `openers_bottom` kept per (delimiter kind, closing run length mod 3, closer-can-also-open), as the
  appendix says ("We keep track of the openers_bottom for each delimiter type (*, _), indexed to
  the length of the closing delimiter run (modulo 3) and to whether the closing delimiter can also
  be an opener").

Supported input: plain characters, whitespace, punctuation and runs of `*` / `_`.  Everything else
that is special in inline Markdown (backslash, backtick, brackets, `<`, `&`, `!`, line endings)
must not occur; `spec_emphasis` raises ValueError on them instead of guessing.  A line feed is
accepted as what it is for this algorithm: a Unicode whitespace character that is output as is
(soft line break) -- used only to validate the model on more of the specification's examples.

Result structure ("nested structure"):  a list of nodes; a node is either a `str` (literal text,
adjacent literals merged) or a tuple `('em', [nodes])` / `('strong', [nodes])`.

The keyword arguments of `spec_emphasis` switch on *deliberate deviations* from the specification.
They are NOT part of the oracle (the oracle is the call with all of them at their defaults); they
exist so that an observed disagreement of an implementation can be attributed to a named root
cause ("the implementation's output is what the spec algorithm gives if it is changed in exactly
this way"):

    bottoms='key'      spec: per (kind, len mod 3, can_open);   'none': no lower bounds at all
                       (must be indistinguishable from 'key' -- self-check of the model);
                       'kind': one bound per delimiter kind only;
                       'js030': what commonmark.js 0.30 does (per-kind for `_`, keyed for `*`)
    rule3='orig'       spec: rule of three on original run lengths;  'current': on remaining lengths
    bottom_none_at_1   the lower bound written when no opener is found is "nothing" (search the
                       whole stack) instead of "the element below the closer" when the closer sits at
                       stack index 1
    bottom_as_index    the lower bound is remembered as a stack INDEX instead of a stack element, and
                       is not adjusted when elements below/at it are removed from the stack
    push_inert         delimiter runs that can neither open nor close are pushed on the stack too
                       (unobservable by itself; it only shifts the stack indexes the three
                       index-sensitive deviations depend on)
    rescan             after a match that exhausts the closer, resume the scan one stack element
                       too low (the element below the opener's successor), re-examining closers
                       that were already handled
"""
import unicodedata

__all__ = ['spec_emphasis', 'to_html', 'spec_html', 'is_unicode_whitespace', 'is_punctuation',
           'flanking', 'UNSUPPORTED']

ASCII_PUNCT = set('!"#$%&\'()*+,-./:;<=>?@[\\]^_`{|}~')
UNSUPPORTED = set('`[]\\<&!\r')


def is_unicode_whitespace(c):
    return c in '\t\n\x0c\r' or unicodedata.category(c) == 'Zs'


def is_punctuation(c):
    return c in ASCII_PUNCT or unicodedata.category(c) in ('Pc', 'Pd', 'Pe', 'Pf', 'Pi', 'Po', 'Ps')


def flanking(text, start, end):
    """(can_open, can_close) of the delimiter run text[start:end]  (spec 6.2, rules 1-8).
    The beginning and the end of the line count as Unicode whitespace."""
    before = text[start - 1] if start > 0 else '\n'
    after = text[end] if end < len(text) else '\n'
    b_ws, a_ws = is_unicode_whitespace(before), is_unicode_whitespace(after)
    b_p, a_p = is_punctuation(before), is_punctuation(after)
    # left-flanking: not followed by whitespace, and either (2a) not followed by punctuation or
    # (2b) followed by punctuation and preceded by whitespace or punctuation.
    left = (not a_ws) and ((not a_p) or b_ws or b_p)
    right = (not b_ws) and ((not b_p) or a_ws or a_p)
    if text[start] == '*':
        return left, right                                   # rules 1, 3, 5, 7
    can_open = left and ((not right) or b_p)                 # rules 2, 6
    can_close = right and ((not left) or a_p)                # rules 4, 8
    return can_open, can_close


class _Delim(object):
    __slots__ = ('kind', 'orig', 'num', 'can_open', 'can_close', 'node')

    def __init__(self, kind, n, can_open, can_close, node):
        self.kind, self.orig, self.num = kind, n, n
        self.can_open, self.can_close, self.node = can_open, can_close, node


def _scan(text, push_inert=False):
    """Split into inline nodes; a node is a 1-element list [literal] (mutable cell) or a tuple."""
    nodes, stack = [], []
    i, n = 0, len(text)
    buf = []
    while i < n:
        c = text[i]
        if c in UNSUPPORTED:
            raise ValueError('character %r is outside the supported domain' % c)
        if c == '*' or c == '_':
            j = i
            while j < n and text[j] == c:
                j += 1
            if buf:
                nodes.append([''.join(buf)])
                buf = []
            can_open, can_close = flanking(text, i, j)
            node = [text[i:j]]
            nodes.append(node)
            if can_open or can_close or push_inert:
                stack.append(_Delim(c, j - i, can_open, can_close, node))
            i = j
        else:
            buf.append(c)
            i += 1
    if buf:
        nodes.append([''.join(buf)])
    return nodes, stack


def _index_is(seq, obj):
    for k, x in enumerate(seq):
        if x is obj:
            return k
    raise AssertionError('node not found')


def spec_emphasis(text, bottoms='key', rule3='orig', bottom_none_at_1=False, rescan=False,
                  bottom_as_index=False, push_inert=False):
    nodes, stack = _scan(text, push_inert)
    _process(nodes, stack, bottoms, rule3, bottom_none_at_1, rescan, bottom_as_index)
    return _freeze(nodes)


def _bottom_key(closer, bottoms):
    if bottoms == 'key':
        return (closer.kind, closer.orig % 3, closer.can_open)
    if bottoms == 'kind':
        return closer.kind
    if bottoms == 'js030':
        return closer.kind if closer.kind == '_' else (closer.kind, closer.orig % 3, closer.can_open)
    return None


def _process(nodes, stack, bottoms, rule3, bottom_none_at_1, rescan, bottom_as_index):
    # The delimiter stack is a Python list (index 0 = bottom).  A lower bound is remembered as the
    # delimiter OBJECT below which (inclusive) the search must not go -- exactly the pointer of the
    # specification; None = stack_bottom (there is no link/image support, so it is always NULL).
    openers_bottom = {}
    pos = 0
    while pos < len(stack):
        closer = stack[pos]
        if not closer.can_close:
            pos += 1
            continue
        key = _bottom_key(closer, bottoms)
        bound = openers_bottom.get(key) if bottoms != 'none' else None
        # look back for the first potential matching opener
        k = pos - 1
        found = None
        while k >= 0 and ((k > bound) if (bottom_as_index and bound is not None)
                          else (stack[k] is not bound)):
            opener = stack[k]
            if opener.kind == closer.kind and opener.can_open:
                if rule3 == 'orig':
                    lo, lc = opener.orig, closer.orig
                else:
                    lo, lc = opener.num, closer.num
                # rules 9 and 10: if one of the delimiters can both open and close, the sum of the
                # lengths of the runs must not be a multiple of 3 unless both are multiples of 3.
                odd = ((closer.can_open or opener.can_close)
                       and (lo + lc) % 3 == 0 and not (lo % 3 == 0 and lc % 3 == 0))
                if not odd:
                    found = k
                    break
            k -= 1
        if found is None:
            # lower bound for future searches: the element before current_position
            if bottoms != 'none':
                if bottom_none_at_1 and pos <= 1:
                    openers_bottom[key] = None
                else:
                    openers_bottom[key] = ((pos - 1) if bottom_as_index else stack[pos - 1]) \
                        if pos > 0 else None
            if not closer.can_open:
                del stack[pos]          # current_position now designates the next element
            else:
                pos += 1
            continue
        opener = stack[found]
        use = 2 if (opener.num >= 2 and closer.num >= 2) else 1
        oi = _index_is(nodes, opener.node)
        ci = _index_is(nodes, closer.node)
        assert oi < ci
        inner = nodes[oi + 1:ci]
        opener.num -= use
        closer.num -= use
        opener.node[0] = opener.node[0][:len(opener.node[0]) - use]
        closer.node[0] = closer.node[0][:len(closer.node[0]) - use]
        emph = ('strong' if use == 2 else 'em', inner)
        nodes[oi + 1:ci] = [emph]
        # remove any delimiters between the opener and closer from the delimiter stack
        del stack[found + 1:pos]
        pos = found + 1
        if opener.num == 0:
            del nodes[oi]
            del stack[found]
            pos -= 1
        if closer.num == 0:
            del nodes[_index_is(nodes, closer.node)]
            del stack[pos]              # current_position = next element in the stack
            if rescan:
                pos = max(0, pos - 1)
        # else: closer keeps its remaining delimiters and is examined again


def _freeze(nodes):
    out = []
    for nd in nodes:
        if isinstance(nd, list):
            if nd[0]:
                if out and isinstance(out[-1], str):
                    out[-1] += nd[0]
                else:
                    out.append(nd[0])
        else:
            out.append((nd[0], _freeze(nd[1])))
    return out


def _esc(s):
    return s.replace('&', '&amp;').replace('<', '&lt;').replace('>', '&gt;')


def to_html(struct):
    parts = []
    for nd in struct:
        if isinstance(nd, str):
            parts.append(_esc(nd))
        else:
            parts.append('<%s>%s</%s>' % (nd[0], to_html(nd[1]), nd[0]))
    return ''.join(parts)


def spec_html(text, **kw):
    return to_html(spec_emphasis(text, **kw))


def shape(struct):
    """Nesting skeleton without the text: e.g. [('em', [('strong', [])])]."""
    return [(nd[0], shape(nd[1])) for nd in struct if not isinstance(nd, str)]
