"""C09 -- Markdown round trip: same meaning, idempotent, exact on normal form (bounded tier).

Runtime contracts on the real `mistletoe.markdown_renderer.MarkdownRenderer`:

  for x in SPEC (652 CommonMark 0.30 examples) + DOCS (runtime/mdgen.py, modes 'free' and 'normal'),
  for b in {False, True}:   r = MarkdownRenderer(normalize_whitespace=b).render(Document(x))
    c09a 'same-meaning'       HtmlRenderer().render(Document(r)) == HtmlRenderer().render(Document(x))
                              and Document(r).footnotes == Document(x).footnotes (parsed under HtmlRenderer)
    c09b 'idempotent'         MarkdownRenderer(normalize_whitespace=b).render(Document(r)) == r
    c09c 'normal-form-exact'  x generated in mode 'normal' and b == False  ==>  r == x
    noraise                   none of the calls raises

The oracle is the property itself (a relation between runs); the generator and the notion of
"normal form" are independent of mistletoe code (mdgen imports nothing from it).

Failing generated documents are shrunk structurally (mdgen.shrink) inside the generated domain, so
`input` is a (locally) minimal document and the key is stable:  '<contract>|<repr(min input)>|nw=<b>'.
Spec examples are reported as  '<contract>|spec:<example number>|nw=<b>'.
"""
import os
import re
import sys

from runtime.common import use_repo, spec_examples, pool_map, Timer
from runtime import mdgen

use_repo()

from mistletoe import Document, HtmlRenderer                      # noqa: E402
from mistletoe.markdown_renderer import MarkdownRenderer          # noqa: E402

CHUNK = 40              # cases per work item (fixed: independent of the number of workers)
SHRINK_BUDGET = 250     # renderer evaluations per shrunk failure
SHRINK_PER_CHUNK = 6    # failures shrunk per work item; the rest are reported unshrunk
MAX_FAILURES = int(os.environ.get('VERIF_MAXFAIL', '400'))

# Attribution of the spec examples that fail on the pinned tree (documentation only: nothing is
# filtered by this table; an example missing from it is reported with a heuristic class).
SPEC_CLASS = {
    25: 'character-reference-decoded', 26: 'character-reference-decoded',
    37: 'character-reference-decoded', 38: 'character-reference-decoded',
    39: 'character-reference-decoded', 40: 'character-reference-decoded',
    41: 'character-reference-decoded',
    49: 'continuation-line-indent-ge4-stripped', 70: 'continuation-line-indent-ge4-stripped',
    87: 'continuation-line-indent-ge4-stripped', 238: 'continuation-line-indent-ge4-stripped',
    312: 'continuation-line-indent-ge4-stripped',
    112: 'whitespace-only-line-blanked', 129: 'whitespace-only-line-blanked',
    126: 'empty-fenced-code-gains-line', 130: 'empty-fenced-code-gains-line',
    144: 'empty-fenced-code-gains-line', 237: 'empty-fenced-code-gains-line',
    280: 'empty-list-item-swallows-blank-lines', 315: 'empty-list-item-swallows-blank-lines',
    497: 'escape-in-destination-or-title-dropped', 499: 'escape-in-destination-or-title-dropped',
    505: 'escape-in-destination-or-title-dropped',
    257: 'nw-reindent-captures-following-indented-block',
    313: 'nw-reindent-captures-following-indented-block',
}


def _clean():
    """Start every call from the library's initial global state.  The pinned tree leaks parser state
    between calls (collected code-span matches, the setext switch, the root node: property C11);
    without this the verdict of a case would depend on the cases a worker happened to run before."""
    from mistletoe import block_token, span_token, core_tokens, token
    if hasattr(core_tokens, '_code_matches'):
        core_tokens._code_matches = []
    if hasattr(block_token.Paragraph, 'parse_setext'):
        block_token.Paragraph.parse_setext = True
    if hasattr(token, '_root_node'):
        token._root_node = None
    block_token.reset_tokens()
    span_token.reset_tokens()


# Directed members of the generated domain: the minimal input of every root-cause class that the
# enumeration found on the pinned tree, so that each class is exercised whatever the seed.
DIRECTED = [
    ('free', '```\n```\n'), ('free', '    \na\n'), ('free', '*\n\na\n'), ('free', '|\n---: |\na\\|b |\n'),
    ('free', '|\n---:|\na|  |\n'), ('free', ' -    one\n\n     two\n'), ('free', '-\n  ---\n'), ('free', '-\n--\n'),
    ('free', '> - ##\n> \n>      a\n  a\n'), ('free', '##   #\n'), ('free', '**``` [l](u) ```****__star*red__**\n'),
    ('free', '    a\n      \n    b\n'), ('free', '- ```\n  a\n\n  ```\n'), ('normal', '* a\n\n\na\n'),
    ('normal', '1. a\n\n   b\n\n\n\nc\n'),
]


def html_of(text):
    _clean()
    with HtmlRenderer() as h:
        d = Document(text)
        out = h.render(d)
        return out, dict(d.footnotes)


def md_of(text, nw):
    _clean()
    with MarkdownRenderer(normalize_whitespace=nw) as r:
        return r.render(Document(text))


def check(x, nw, normal):
    """-> list of (contract, observed, expected); [] when all contracts hold"""
    bad = []
    try:
        r = md_of(x, nw)
        hx = html_of(x)
        hr = html_of(r)
        if hr != hx:
            bad.append(('c09a', {'markdown': r, 'html': hr[0], 'footnotes': hr[1]},
                        {'html': hx[0], 'footnotes': hx[1]}))
        rr = md_of(r, nw)
        if rr != r:
            bad.append(('c09b', rr, r))
        if normal and not nw and r != x:
            bad.append(('c09c', r, x))
    except Exception as e:                                        # noqa: BLE001
        bad.append(('noraise', '%s: %s' % (type(e).__name__, e), 'no exception'))
    return bad


_FENCE = re.compile(r'^[> ]*(?:(?:[-+*]|\d{1,9}[.)]) +)*[> ]*(`{3,}|~{3,})[^`\n]*$')


_GAINED = re.compile(r'^[> ]*(`{3,}|~{3,})[^\n]*\n[> ]*\n[> ]*\1 *$', re.M)


def _ncells(line):
    return max(len([c for c in re.split(r'(?<!\\)\|', v.strip()) if c])
               for v in (line, re.sub(r'^[> ]*', '', line)))


def classify(x, contract, nw, fails_without_nw, observed=None):
    """Heuristic root-cause slug from the (minimal) failing text."""
    lines = x.split('\n')
    if contract == 'noraise':
        return 'parser-raises-%s' % str(observed).split(':')[0].lower()
    if contract == 'c09c' and isinstance(observed, str) and \
            [l for l in observed.split('\n') if l.strip()] == [l for l in lines if l.strip()] and \
            re.search(r'^[> ]*(?:[-+*]|\d{1,9}[.)]) ', x, re.M) and re.search(r'\n[> ]*\n[> ]*\n', x):
        return 'extra-blank-lines-after-list-item-collapsed'
    if re.search(r'&(#\d+|#[xX][0-9a-fA-F]+|[A-Za-z][A-Za-z0-9]*);', x):
        return 'character-reference-decoded'
    if re.search(r'\]\([^)\n]*\\[^)\n]*\)', x) or re.search(r'^ {0,3}\[[^\]]+\]:.*\\', x, re.M):
        return 'escape-in-destination-or-title-dropped'
    if nw and not fails_without_nw:
        return 'nw-reindent-captures-following-indented-block'
    if '\\|' in x:
        return 'table-escaped-pipe-unescaped'
    for i, l in enumerate(lines[:-1]):
        m = _FENCE.match(l)
        if m:
            nxt = lines[i + 1]
            body = re.sub(r'^[> ]*', '', nxt)
            if i + 1 == len(lines) - 1 or body.startswith(m.group(1)[0] * 3) and \
                    not body.strip(m.group(1)[0] + ' '):
                return 'empty-fenced-code-gains-line'
            break
    if isinstance(observed, dict) and _GAINED.search(observed.get('markdown', '')) and not _GAINED.search(x):
        return 'empty-fenced-code-gains-line'
    for i, l in enumerate(lines[:-1]):
        body = re.sub(r'^(?: {0,3}>[ ]?)+', '', l)
        if body != '' and body.strip() == '':
            return 'whitespace-only-line-blanked'
    for i, l in enumerate(lines[:-1]):
        if re.match(r'^[> ]*(?:(?:[-+*]|\d{1,9}[.)]) *)+$', l) and i + 1 < len(lines) - 1 and \
                re.sub(r'^[> ]*', '', lines[i + 1]) == '':
            return 'empty-list-item-swallows-blank-lines'
    for i, l in enumerate(lines[:-2]):
        if '|' in l and re.fullmatch(r'[> ]*[-:| ]*-[-:| ]*', lines[i + 1]) and '|' in lines[i + 1]:
            j = i + 2
            while j < len(lines) and '|' in lines[j]:
                if _ncells(lines[j]) > max(_ncells(l), _ncells(lines[i + 1])):
                    return 'table-row-wider-than-header-widens-table'
                j += 1
    if contract == 'c09b' and re.search(r'^[> ]*#{1,6}( +#+)+ *$', x, re.M):
        return 'empty-atx-heading-closing-sequence-lost-on-second-pass'
    if re.search(r'^[> ]*(?:[-+*]|\d{1,9}[.)]) *\n[> ]*[^> \n]', x, re.M):
        return 'blank-first-line-item-joined-to-marker-line'
    for i, l in enumerate(lines[:-1]):
        if i and l.strip() and not l.lstrip().startswith('>') and lines[i - 1].lstrip().startswith('>'):
            return 'unquoted-line-after-quote-lazy-heuristic-flips'
    return 'unclassified'


def nontrivial(hx):
    """rule: the HTML of x has at least one element other than <p> (some construct is present)"""
    return bool(re.search(r'<(?!/|p>)', hx))


def _trim(v, n=3000):
    if isinstance(v, str):
        return v if len(v) <= n else v[:n] + '...[%d chars]' % len(v)
    if isinstance(v, dict):
        return {k: _trim(w, n) for k, w in v.items()}
    return v


def work(job):
    chunk, per_chunk = job
    res = {'evaluations': 0, 'contract_evaluations': 0, 'failures': [], 'samples': [],
           'nontrivial': [], 'failing_cases': 0, 'shrink_evals': 0, 'kinds': {}, 'maxdepth': 0}
    shrunk = 0
    for case in chunk:
        if case[0] == 'spec':
            tree, x, normal, ident = None, case[2], False, 'spec:%d' % case[1]
        elif case[0] == 'directed':
            tree, x, normal, ident = None, case[2], case[3] == 'normal', 'directed:%d' % case[1]
        else:
            tree, x = mdgen.gen(case[2], case[1])
            normal, ident = case[1] == 'normal', 'gen:%s:%d' % (case[1], case[2])
            for k, v in mdgen.kinds_in(tree).items():
                res['kinds'][k] = res['kinds'].get(k, 0) + v
            res['maxdepth'] = max(res['maxdepth'], mdgen.depth_of(tree))
        try:
            if nontrivial(html_of(x)[0]):
                res['nontrivial'].append(hash(x))
        except Exception:                                         # noqa: BLE001
            pass
        if len(res['samples']) < 2 and tree is not None:
            res['samples'].append({'id': ident, 'markdown': x})
        per_nw = {}
        for nw in (False, True):
            bad = check(x, nw, normal)
            per_nw[nw] = {b[0] for b in bad}
            res['evaluations'] += 1
            res['contract_evaluations'] += 4 if normal and not nw else 3
            for contract, observed, expected in bad:
                res['failing_cases'] += 1
                mx = x
                if tree is not None and shrunk < per_chunk:
                    shrunk += 1

                    def fails(t, contract=contract, nw=nw, normal=normal):
                        return any(b[0] == contract for b in check(t, nw, normal))
                    _, mx, used = mdgen.shrink(tree, fails, SHRINK_BUDGET, normal=normal)
                    res['shrink_evals'] += used
                    again = [b for b in check(mx, nw, normal) if b[0] == contract]
                    if again:
                        observed, expected = again[0][1], again[0][2]
                    else:
                        mx = x
                if case[0] == 'spec':
                    key = '%s|%s|nw=%s' % (contract, ident, nw)
                    cls = SPEC_CLASS.get(case[1])
                else:
                    key = '%s|%r|nw=%s' % (contract, mx, nw)
                    cls = None
                if cls is None:
                    without = contract in per_nw.get(False, ()) if nw else True
                    if nw and mx != x:
                        without = any(b[0] == contract for b in check(mx, False, normal))
                    cls = classify(mx, contract, nw, without, observed)
                res['failures'].append({
                    'key': key, 'contract': contract, 'class': cls,
                    'input': {'markdown': mx, 'normalize_whitespace': nw, 'source': ident},
                    'observed': _trim(observed), 'expected': _trim(expected),
                    'replay': ('from mistletoe import Document, HtmlRenderer; '
                               'from mistletoe.markdown_renderer import MarkdownRenderer\n'
                               'x = %r\nwith MarkdownRenderer(normalize_whitespace=%s) as m: r = m.render(Document(x))\n'
                               'with MarkdownRenderer(normalize_whitespace=%s) as m: rr = m.render(Document(r))\n'
                               'with HtmlRenderer() as h: hx = h.render(Document(x))\n'
                               'with HtmlRenderer() as h: hr = h.render(Document(r))\n'
                               'print(hx == hr, rr == r, r == x)' % (mx, nw, nw))})
    return res


def reshrink(f):
    """second, thorough minimisation of a failure that the first pass left unexplained"""
    _, mode, ident = f['input']['source'].split(':')
    contract, nw, normal = f['contract'], f['input']['normalize_whitespace'], mode == 'normal'
    tree, x = mdgen.gen(int(ident), mode)

    def fails(t):
        return any(b[0] == contract for b in check(t, nw, normal))
    if not fails(x):
        return f
    _, mx, _ = mdgen.shrink(tree, fails, 2500, normal=normal)
    again = [b for b in check(mx, nw, normal) if b[0] == contract]
    if not again:
        return f
    g = dict(f)
    g['key'] = '%s|%r|nw=%s' % (contract, mx, nw)
    g['input'] = dict(f['input'], markdown=mx)
    g['observed'], g['expected'] = _trim(again[0][1]), _trim(again[0][2])
    without = any(b[0] == contract for b in check(mx, False, normal)) if nw else True
    g['class'] = classify(mx, contract, nw, without, again[0][1])
    g['replay'] = f['replay'].replace('x = %r\n' % f['input']['markdown'], 'x = %r\n' % mx)
    return g


def select(failures, n):
    """the 3 smallest inputs of every (contract, class), then the globally smallest, n in all"""
    order = lambda f: (len(f['input']['markdown']), f['input']['markdown'], f['key'])  # noqa: E731
    fl = sorted(failures, key=order)
    per, first, rest = {}, [], []
    for f in fl:
        c = (f['contract'], f['class'])
        per[c] = per.get(c, 0) + 1
        (first if per[c] <= 3 else rest).append(f)
    return sorted((first + rest)[:max(n, len(first))][:n] if len(first) <= n else first[:n], key=order)


def run(tier, seed, workers):
    t = Timer()
    n_free, n_normal = (10000, 5000) if tier == 'quick' else (200000, 80000)
    base = seed * 10_000_000
    cases = [('spec', e['example'], e['markdown']) for e in spec_examples()]
    cases += [('directed', i, text, mode) for i, (mode, text) in enumerate(DIRECTED)]
    cases += [('gen', 'free', base + i) for i in range(n_free)]
    cases += [('gen', 'normal', base + i) for i in range(n_normal)]
    chunks = [cases[i:i + CHUNK] for i in range(0, len(cases), CHUNK)]
    per_chunk = SHRINK_PER_CHUNK if tier == 'quick' else 1
    out = {'evaluations': 0, 'contract_evaluations': 0, 'failing_cases': 0, 'shrink_evals': 0}
    failures, samples, nontriv, kinds, maxdepth = {}, [], set(), {}, 0
    seen, classes = set(), {}
    order = lambda f: (len(f['input']['markdown']), f['input']['markdown'], f['key'])  # noqa: E731
    step = max(1, workers) * 40
    for lo in range(0, len(chunks), step):
        for p in pool_map(work, [(c, per_chunk) for c in chunks[lo:lo + step]], workers):
            for k in out:
                out[k] += p[k]
            nontriv.update(p['nontrivial'])
            for k, v in p['kinds'].items():
                kinds[k] = kinds.get(k, 0) + v
            maxdepth = max(maxdepth, p['maxdepth'])
            if len(samples) < 8:
                samples.extend(p['samples'][:1])
            for f in p['failures']:
                h = hash(f['key'])
                if h not in seen:
                    seen.add(h)
                    c = '%s|%s' % (f['contract'], f['class'])
                    classes[c] = classes.get(c, 0) + 1
                    failures[f['key']] = f
        if os.environ.get('VERIF_PROGRESS'):
            sys.stderr.write('b09: %d/%d work items, %.0f s\n' % (min(lo + step, len(chunks)), len(chunks), t.s()))
        if len(failures) > 4 * MAX_FAILURES + 2000:       # bound the memory: keep the smallest
            failures = {f['key']: f for f in select(failures.values(), MAX_FAILURES + 200)}
    # failures the heuristics could not attribute: minimise them again, without the per-item limits
    todo = [f for f in sorted(failures.values(), key=order)
            if f['class'] == 'unclassified' and f['input']['source'].startswith('gen:')][:96]
    for f, g in zip(todo, pool_map(reshrink, todo, workers)):
        if g is not f:
            c_old = '%s|%s' % (f['contract'], f['class'])
            c_new = '%s|%s' % (g['contract'], g['class'])
            classes[c_old] -= 1
            if not classes[c_old]:
                del classes[c_old]
            failures.pop(f['key'])
            if g['key'] in failures:
                seen.discard(hash(f['key']))
            else:
                failures[g['key']] = g
                seen.add(hash(g['key']))
                seen.discard(hash(f['key']))
                classes[c_new] = classes.get(c_new, 0) + 1
    fl = select(failures.values(), MAX_FAILURES)
    by_class, minimal = {}, {}
    for c, v in classes.items():
        by_class[c.split('|', 1)[1]] = by_class.get(c.split('|', 1)[1], 0) + v
    for f in sorted(failures.values(), key=order):
        minimal.setdefault(f['class'], {'contract': f['contract'], 'key': f['key'], 'input': f['input']})
    out.update({
        'domain': ('SPEC: the 652 CommonMark 0.30 examples; %d directed documents (one per known root-cause '
                   'class, seed-independent); DOCS: %d mdgen documents in mode free '
                   '(every block/inline construct, canonical and non-canonical spellings, container '
                   'nesting <= 4, measured max depth %d) + %d in mode normal (renderer normal form), '
                   'generator seeds %d.. ; each x normalize_whitespace in {False, True}. Excluded by '
                   'construction: character references, backslashes in link destinations/titles, '
                   'paragraph continuation lines indented >= 4, tabs, non-\\n line separators'
                   % (len(DIRECTED), n_free, maxdepth, n_normal, base)),
        'rule': ('seeded structural generation (runtime/mdgen.py); a case is non-trivial iff the '
                 'HTML of x contains an element other than <p>; distinct_nontrivial counts distinct '
                 'such documents; contracts per case: noraise, c09a, c09b (+ c09c for mode normal, nw=False)'),
        'distinct_nontrivial': len(nontriv),
        'exhaustive': False,
        'samples': samples[:8],
        'node_kind_counts': kinds,
        'failures_total': len(seen),
        'class_counts': classes,
        'failures_by_class': by_class,
        'minimal_input_per_class': minimal,
        'failures': fl,
        'elapsed_s': round(t.s(), 1),
    })
    return out
