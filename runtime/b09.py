"""C09 -- Markdown round trip: same meaning, idempotent, exact on normal form (bounded tier).

Runtime contracts on the real `mistletoe.markdown_renderer.MarkdownRenderer`:

  for x in SPEC (652 CommonMark 0.30 examples) + DIRECTED (seed-independent: one document per known
           root-cause class + the systematic families of `directed_families()`) +
           DOCS (runtime/mdgen.py, modes 'free' and 'normal'),
  for b in {False, True}:   r = MarkdownRenderer(normalize_whitespace=b).render(Document(x))
    c09a 'same-meaning'       HtmlRenderer().render(Document(r)) == HtmlRenderer().render(Document(x))
                              and Document(r).footnotes == Document(x).footnotes (parsed under HtmlRenderer)
    c09b 'idempotent'         MarkdownRenderer(normalize_whitespace=b).render(Document(r)) == r
    c09c 'normal-form-exact'  x generated in mode 'normal' and b == False  ==>  r == x
    noraise                   none of the calls raises

The oracle is the property itself (a relation between runs); the generator and the notion of
"normal form" are independent of mistletoe code (mdgen imports nothing from it).

Failing generated documents are shrunk structurally (mdgen.shrink) inside the generated domain, so
`input` is a (locally) minimal document and the key is stable:  '<contract>|<repr(min input)>|nw=<b>'.
Spec examples are reported as  '<contract>|spec:<example number>|nw=<b>'.
"""
import json
import os
import re
import sys

from runtime.common import use_repo, spec_examples, pool_map, Timer
from runtime import mdgen

use_repo()

from mistletoe import Document, HtmlRenderer                      # noqa: E402
from mistletoe.markdown_renderer import MarkdownRenderer          # noqa: E402

CHUNK = 40              # cases per work item (fixed: independent of the number of workers)
SHRINK_BUDGET = 250     # renderer evaluations per shrunk failure
SHRINK_PER_CHUNK = 6    # failures shrunk per work item; the rest are reported unshrunk
MAX_FAILURES = int(os.environ.get('VERIF_MAXFAIL', '400'))

# Attribution of the spec examples that fail on the pinned tree (documentation only: nothing is
# filtered by this table; an example missing from it is reported with a heuristic class).
SPEC_CLASS = {
    25: 'character-reference-decoded', 26: 'character-reference-decoded',
    37: 'character-reference-decoded', 38: 'character-reference-decoded',
    39: 'character-reference-decoded', 40: 'character-reference-decoded',
    41: 'character-reference-decoded',
    49: 'continuation-line-indent-ge4-stripped', 70: 'continuation-line-indent-ge4-stripped',
    87: 'continuation-line-indent-ge4-stripped', 238: 'continuation-line-indent-ge4-stripped',
    312: 'continuation-line-indent-ge4-stripped',
    112: 'whitespace-only-line-blanked', 129: 'whitespace-only-line-blanked',
    126: 'empty-fenced-code-gains-line', 130: 'empty-fenced-code-gains-line',
    144: 'empty-fenced-code-gains-line', 237: 'empty-fenced-code-gains-line',
    280: 'empty-list-item-swallows-blank-lines', 315: 'empty-list-item-swallows-blank-lines',
    497: 'escape-in-destination-or-title-dropped', 499: 'escape-in-destination-or-title-dropped',
    505: 'escape-in-destination-or-title-dropped',
    257: 'nw-reindent-captures-following-indented-block',
    313: 'nw-reindent-captures-following-indented-block',
}


def _clean():
    """Start every call from the library's initial global state.  The pinned tree leaks parser state
    between calls (collected code-span matches, the setext switch, the root node: property C11);
    without this the verdict of a case would depend on the cases a worker happened to run before."""
    from mistletoe import block_token, span_token, core_tokens, token
    if hasattr(core_tokens, '_code_matches'):
        core_tokens._code_matches = []
    if hasattr(block_token.Paragraph, 'parse_setext'):
        block_token.Paragraph.parse_setext = True
    if hasattr(token, '_root_node'):
        token._root_node = None
    block_token.reset_tokens()
    span_token.reset_tokens()


# Directed members of the generated domain: the minimal input of every root-cause class that the
# enumeration found on the pinned tree, so that each class is exercised whatever the seed.
DIRECTED = [
    ('free', '```\n```\n'), ('free', '    \na\n'), ('free', '*\n\na\n'), ('free', '|\n---: |\na\\|b |\n'),
    ('free', '|\n---:|\na|  |\n'), ('free', ' -    one\n\n     two\n'), ('free', '-\n  ---\n'), ('free', '-\n--\n'),
    ('free', '> - ##\n> \n>      a\n  a\n'), ('free', '##   #\n'), ('free', '**``` [l](u) ```****__star*red__**\n'),
    ('free', '    a\n      \n    b\n'), ('free', '- ```\n  a\n\n  ```\n'), ('normal', '* a\n\n\na\n'),
    ('normal', '1. a\n\n   b\n\n\n\nc\n'),
]


# --------------------------------------------------------------------------------------------
# Directed families (seed-independent, enumerated; nothing here imports or consults mistletoe).
# They cover the constructs whose treatment by a parser/renderer depends on how the text is laid
# out in lines, which the random generator reaches rarely or not at all:
#   lazy     lazy continuation lines (lines that lost some or all of their container prefixes) whose
#            last line looks like a setext underline or a block start, in quotes of depth 1-3, list
#            items, and quote/list mixtures; each with its fully prefixed twin
#   code     code spans whose content starts / ends with a line break (with and without blanks)
#   inline   emphasis, links (text / destination / title on different lines), images, reference
#            links, raw HTML and hard breaks broken across lines at their delimiters
#   setext   setext headings with 2-3 content lines (indentation, hard breaks, inline spanning lines)
#   cont     paragraph continuation lines that begin with characters that start (or nearly start) a block
#   defs     link reference definitions with multi-line labels / destinations / titles
#   tables   short rows, empty cells, escaped pipes, over-long rows, lazy rows, blocks right after a table
#   lists    nested lists with different markers, indents and paddings; identical siblings
#   misc     empty content, identical siblings, non-ASCII / astral characters, runs of blank lines
#   uspace   a Unicode space (Zs, not U+0020) at the start of a paragraph line
# Every family member is placed in several container contexts by wrap().  Excluded as in the generated
# domain: character references, backslashes in destinations/titles, continuation lines indented >= 4,
# tabs, line separators other than '\n' (also U+000B, U+000C, U+001C-1E, U+0085, U+2028, U+2029).
# --------------------------------------------------------------------------------------------
def wrap(stack, lines, keep=()):
    """`lines` as the content of the container stack (outermost first; '>' = block quote, anything
    else = list marker).  Line i > 0 keeps only its keep[i] outermost prefixes (None/absent: all):
    fewer makes it a lazy continuation line."""
    out = []
    for i, l in enumerate(lines):
        k = keep[i] if i < len(keep) and keep[i] is not None else len(stack)
        s = l
        for d in range(len(stack) - 1, -1, -1):
            c = stack[d]
            if i and d >= k:
                continue
            if c == '>':
                s = ('> ' + s) if s else '>'
            elif i == 0:
                s = c + ' ' + s.lstrip(' ')
            else:
                s = (' ' * (len(c) + 1) + s) if s else ''
        out.append(s)
    return '\n'.join(out) + '\n'


BLOCK_STACKS = ((), ('>',), ('-',), ('1.',), ('>', '>'), ('-', '>'), ('>', '-'), ('-', '-'), ('10.', '>', '-'))


def blocks_ctx(lines, stacks=BLOCK_STACKS, tails=((), ('', 'z'), ('z',))):
    return [wrap(stack, list(lines) + list(tail)) for stack in stacks for tail in tails]


LAZY_LAST = [['==='], ['='], ['---'], ['-'], ['***'], ['___'], ['* * *'], ['# x'], ['#'], ['#x'], ['- x'], ['+ x'],
             ['* x'], ['1. x'], ['1) x'], ['2. x'], ['10. x'], ['+'], ['*'], ['1.'], ['> x'], ['>'],
             ['```', 'c', '```'], ['~~~', 'c', '~~~'], ['``` py', 'c', '```'], ['<div>'], ['<!-- c -->'], ['<span>'],
             ['| x |'], ['| x |', '| - |'], ['[foo]: /u'], [' ==='], ['   ---'], ['  - x'], ['   # x'], ['\\# x'], ['x']]
LAZY_STACKS = [('>',), ('>', '>'), ('>', '>', '>'), ('-', '>'), ('1.', '>'), ('>', '-'), ('-',), ('10.',), ('-', '-'),
               ('>', '1.', '>')]


def fam_lazy():
    out = []
    for stack in LAZY_STACKS:
        n = len(stack)
        for head in (['a'], ['a', 'b']):
            for last in LAZY_LAST:
                for k in range(n + 1):              # k == n: the fully prefixed twin
                    hk = [[None] * len(head)]
                    if len(head) == 2 and k < n:
                        hk.append([None, k])        # the middle line lazy as well
                    for h in hk:
                        keep = h + [k] * len(last)
                        out.append(wrap(stack, head + last, keep))
                        out.append(wrap(stack, head + last + ['c'], keep + [None]))
                        if k < n:
                            out.append(wrap(stack, head + last + ['c'], keep + [k]))
    return out


INLINE_CTX = [((), None), (('>',), None), (('>',), 0), (('-',), None), (('-',), 0), (('1.',), None), (('>', '>'), 1),
              (('>', '>'), 0), (('-', '>'), None), (('-', '>'), 0), (('>', '-'), 1), (('>', '-'), 0), (('-', '-'), None)]


def inline_ctx(text, tails=((), ('', 'z'))):
    """the inline text (may contain '\n') as a paragraph in every context of INLINE_CTX: all lines
    prefixed, or the lines after the first one lazy (keeping the k outermost prefixes)"""
    out = []
    lines = text.split('\n')
    for stack, k in INLINE_CTX:
        if k is not None and len(lines) == 1:
            continue
        for tail in tails:
            keep = [None] + [k] * (len(lines) - 1) + [None] * len(tail)
            out.append(wrap(stack, lines + list(tail), keep))
    return out


CODE_BODIES = ['\na', 'a\n', '\na\n', ' \na', 'a \n', ' \na \n', '\n a', 'a\n ', '\n a\n ', '\na b\n', 'a\nb', 'a \n b',
               '\n\xe9\n', '\n`\n', '\n`a`\n', '\n', ' \n ', '\n \n', '\na\nb\n', '  \na', 'a\\\nb', '\n*a*\n', '\n- a',
               '\n# a', '\n> a', 'a\n===', '\n1. a\n']


def fam_code():
    out = []
    for body in CODE_BODIES:
        for n in (1, 2, 3):
            if '`' * n in body or n == 1 and '`' in body:
                continue
            for pre, post in (('', ''), ('x ', ' y'), ('*', '*')):
                text = pre + '`' * n + body + '`' * n + post
                if any(l.lstrip(' ').startswith('```') for l in text.split('\n')):
                    continue        # a line starting with ``` is a fence, not a code span
                out.extend(inline_ctx(text))
    return out


INLINE_BROKEN = [
    '*a\nb*', '_a\nb_', '**a\nb**', '__a\nb__', '~~a\nb~~', '*a\n**b\nc**\nd*', '***a\nb***', '*a  \nb*', '**a\\\nb**',
    'x*\na*', '*a\n*x', '**\na**', 'x **a\n** y', '_a_\n_b_', '*a*\n*a*', 'a*\n*b',
    '[a\nb](/u)', '[a](\n/u)', '[a](/u\n"t")', '[a](/u "t\nu")', '[a](/u\n)', '[a](\n/u\n"t"\n)', "[a](</u>\n't')",
    '[a](/u (t\nu))', '[a](\n</u v>\n)', '[a\nb](\n/u\n"t\nu"\n)', '[a](  \n/u  \n"t"  \n)', '[a]\n(/u)',
    '[a](/u\n\'t\nu\nv\')', '[*a\nb*](/u)', '[`a\nb`](/u)', '[![a\nb](/i)](/u)', '[a](/u "t\n# u")', '[a](/u "t\n- u")',
    '[a](/u "t\n===")', '![a\nb](/u)', '![a](\n/u)', '![a](/u\n"t")', '![a](/u "t\nu")', '![a](\n/u\n"t"\n)',
    '![*a\nb*](/u)', '![a\nb][foo]', '[a\nb][foo]', '[a][foo\nbar]', '[a\nb][]', '[a\nb]', '[foo\nbar][]', '[foo\nbar]',
    '[a]\n[foo]', '[a][\nfoo]', '[a][foo\n]', '<a\nhref="x">', '<a href="x"\ntitle="y">z</a>', 'a <!-- x\ny --> b',
    '<b\n>', '<?x\ny?>', '<a href="\nx">', '<http://a.b/c>\n<d@e.fg>', 'a\\\n\\\nb', 'a  \n  \nb',
]
INLINE_DEFS = '\n[foo]: /u\n[foo bar]: /v "t"\n[a b]: /w\n'


def fam_inline():
    out = []
    for t in INLINE_BROKEN:
        for pre, post in (('', ''), ('x ', ' y')):
            for x in inline_ctx(pre + t + post):
                out.append(x + (INLINE_DEFS if '[' in t else ''))
    return out


SETEXT_TEXT = [['a', 'b'], ['a', 'b', 'c'], ['  a', '   b'], ['a  ', 'b'], ['a\\', 'b'], ['*a', 'b*'], ['`a', 'b`'],
               ['[a', 'b](/u)'], ['a', '#b'], ['a', '-b'], ['a', '2. b'], ['a', '+'], ['a', '1.'], ['a', '| b |'],
               ['a', '= b'], ['a', '<span>'], ['a', '\\- b'], ['a', '[foo]: /u'], ['\xe9', '\U0001f600'], ['a', 'a'],
               ['a', '   b  ', ' c'], ['**a', 'b**  ', 'c'], ['![a', 'b](/u "t', 'u")']]
UNDERLINES = ['===', '=', '---', '-', ' ===', '   ---', '---   ', '=' * 10]


def fam_setext():
    return [x for t in SETEXT_TEXT for u in UNDERLINES for x in blocks_ctx(t + [u])]


CONT = ['#b', '#', '# b', '####### b', '-b', '- b', '+b', '+ b', '*b', '* b', '-', '+', '*', '1.', '1. b', '1) b', '2. b',
        '10) b', '1.b', '1986. b', '=b', '= b', '==', '--', '***', '**', '* * *', '___', '-- -', '> b', '>b', '>', '```',
        '``', '``` b', '~~~', '~~', '| b |', 'b | c', '|', '[b]: /u', '[foo]: /u', '<div>', '<span>', '</div>',
        '<!-- c -->', '<?x?>', '<a@b.co>', '\\# b', '\\- b', '1\\. b', '\\> b', '\\```', '\\+', '\\=', '`#`', '*-*', '&',
        ':', '\\', '\xe9', '\U0001f600', 'a']


def fam_cont():
    out = []
    for c in CONT:
        for ind in ('', ' ', '   '):
            lines = ['a', ind + c]
            if c.startswith(('```', '~~~')):
                lines += ['k', c[:3]]       # (an empty fenced block is a known-delicate class of its own)
            out.extend(blocks_ctx(lines, tails=((), ('', 'z'), ('===',))))
    return out


DEF_FORMS = ['[foo]: /u "t\nu"', "[foo]: /u 't\nu\nv'", '[foo]: /u (t\nu)', '[foo]: /u\n"t\nu"', '[foo]:\n/u\n"t"',
             '[foo]:\n  /u\n   "t\n u"', "[foo]: </u v>\n't'", '[foo]: /u "t\n\nu"', '[foo]: /u "t" x', '[foo]: /u\n"t" x',
             '[foo]: /u\n[bar]: /v "t\nu"', '[foo]: /u "  t\n  u  "', '[fo\no]: /u "t"', '[foo]: /u "t"\n[foo]: /v "w"',
             '[foo]: /u "# t\n- u"', '[foo]: /u "t\n===\n"', '[foo]: /u "t\n> u"', '[foo]: /u\n\'multi\nline\'\ny',
             '[foo]: /u "\xe9\n\U0001f600"', '[foo]: /u\n"t', '[foo]: /u "t\nu', '[foo]: <>\n"t"',
             '[foo]: /u\n   (t)\n[bar]: /v', '[foo]: /u "a\n[bar]: /v"', 'x\n[foo]: /u "t\nu"', '[foo]: /u "t\nu"\nx',
             '[foo]: /u\n===', '[foo]: /u\n---', '[foo]: /u "t"\n===', '[foo]:\n/u\n# x']


def fam_defs():
    out = []
    use = '[foo] [bar] [fo o]'
    for d in DEF_FORMS:
        lines = d.split('\n')
        for stack in ((), ('>',), ('-',), ('1.',), ('>', '>'), ('-', '>'), ('>', '-')):
            out.append(wrap(stack, lines) + '\n' + use + '\n')
            out.append(wrap(stack, lines + ['', use]))
            out.append('[foo] [bar]\n\n' + wrap(stack, lines))
            for k in range(len(stack)):     # the lines after the first one lazy
                out.append(wrap(stack, lines, [None] + [k] * (len(lines) - 1)) + '\n' + use + '\n')
    return out


TABLES = [
    ['| a | b |', '| - | - |', '| c |'], ['| a | b |', '| - | - |', '| c'], ['| a | b |', '| - | - |', 'c'],
    ['| a | b |', '| - | - |', '|'], ['| a | b |', '| - | - |', '| | d |'], ['| a | b |', '| - | - |', '|  |  |'],
    ['| a | b | c |', '|:-|:-:|-:|', '| d | e |', '| f |'], ['| a | b |', '| - | - |', '| `x\\|y` | z |'],
    ['| a | b |', '| - | - |', '| x \\| y | z |'], ['| a \\| b |', '| - |'], ['| a | b |', '| - | - |', '| \\\\| z |'],
    ['| a |', '| - |', '| \xe9\U0001f600 |'], ['| a |', '| - |', '| *x* **y** [l](/u) `c` |'], ['a | b', '-|-', 'c | d'],
    ['| a | b |', '| - | - | - |'], ['| a | b |', '| - |'], ['|a|', '|-|', '|b|', '|c|', '|b|'],
    ['| a | a |', '| - | - |', '| a | a |', '| a | a |'], ['| a | b |', '| - | - |', '| c | d | e |'], ['| a |', '|---|'],
    ['|  a  |', '| :-: |', '| bbbbbbb |'], ['| a | b |', '| -: | :- |', '|c|d|'], ['a|b', ':-|-:', 'c'],
    ['| a | b |', '| - | - |', '| c | d', 'e | f |'], ['| a | b |', '| - | - |', '| c | d |', '', '| e | f |'],
    ['| a | b |', '| - | - |', '| c | d |', '# h'], ['| a | b |', '| - | - |', '| c | d |', '> q'],
    ['| a | b |', '| - | - |', '| c | d |', '- l'], ['| a | b |', '| - | - |', '| c | d |', '---'],
    ['| a | b |', '| - | - |', '| c | d |', '    k'], ['| a | b |', '| - | - |', '| c | d |', '```', 'k', '```'],
    ['| [x](/u "a b") | ![i](/s) |', '| - | - |', '| <b>h</b> | <http://a.b> |'], ['| a |', '| - |', '| \\* |'],
    ['| a |', '| - |', '| x  y |'], ['|   |', '| - |', '|   |'], ['| a | b |', '| - | - |', '| c |  |', '|  | d |'],
]


def fam_tables():
    out = []
    for t in TABLES:
        out.extend(blocks_ctx(t))
        out.extend(blocks_ctx(['p'] + t, tails=((),)))
        if '|' in t[-1]:
            for stack in (('>',), ('-',), ('>', '>'), ('-', '>'), ('>', '-')):
                for k in range(len(stack)):      # the last row lazy
                    out.append(wrap(stack, t, [None] * (len(t) - 1) + [k]))
    return out


LISTS = [
    '- a\n  + b\n    * c\n      1. d', '- a\n+ b\n* c', '- a\n- a\n- a', '1. a\n2) b\n3. c', ' - a\n  - b\n   - c',
    '- a\n    - b', '-   a\n    - b', '1.  a\n    - b\n    2. c', '10. a\n    - b', '10. a\n   - b',
    '- a\n\n  + b\n\n    * c', '- a\n  + b\n- c\n  + d', '* a\n  1. b\n  2. c\n* d', '1. a\n   - b\n\n   - c\n2. d', '- - - a',
    '- 1. - a\n       b', '- a\n\n    b', '- a\n\n      b', '-  a\n   - b\n     - c\n   - d\n-  e', '   - a\n     - b',
    '  1. a\n     1. b\n        1. c', '- a\n   b', '- a\n b', '- a\nb', '- a\n  - b\nc', '- a\n  - b\n c',
    '- a\n  - b\n\n    c\n\n  d', '1. a\n\n   b\n2. c', '- a\n- \n- c', '- a\n-\n- c', '+ a\n\n\n+ b',
    '- a\n  ```\n  x\n  ```\n  + b', '- \xe9\n  + \U0001f600\n    * \xe9', '1. a\n1. a\n1. a', '0. a', '007. a\n     b',
    '123456789. a', '- a\n\n- b\n- c', '- a\n- b\n\n- c', '- a\n\n  b\n- c', '- a\n  - b\n\n  - c\n- d',
    '*   a\n\n    b\n\n        c', '- a\n1. b\n- c', '- a\n * b\n  + c\n   - d', '1. a\n 2. b\n  3. c\n   4. d', '-    a',
    '-     a', '1.     a', '- \n  a', '-\n  a', '1.\n   a', '- a\n  > b\n  > - c\n  >   d',
    '- # a\n- > b\n- ```\n  c\n  ```\n-     d', '- a\n\n  # b\n\n  c', '- [foo]: /u\n- [foo]', '* a\n* * *\n* b', '- a\n- - -',
    '+ a\n  - b\n    + c\n      - d\n        + e', '1) a\n   1) b\n      1) c', '- a\n  b\n- c\n  d', '- a\n\n\n  b',
    '1. a\n\n2. b\n\n3. c', '- a\n  - b\n  - c\n\n  d', '- a\n+ a\n- a\n+ a', '- **a\n  b**\n- `c\n  d`',
]


def fam_lists():
    stacks = ((), ('>',), ('-',), ('1.',), ('>', '>'), ('>', '-'), ('-', '>'))
    return [x for l in LISTS for x in blocks_ctx(l.split('\n'), stacks, ((), ('', 'z'), ('z',), ('', '    k')))]


MISC = [
    # empty content
    '>', '> ', '-', '- ', '#', '# #', '## ##', '**', '[]()', '[](/u)', '![](/u)', '[]', '``', '` `', '`  `', '<>', '[]: /u',
    '|\n|-|', '| |\n|-|', '```\nx\n```', '~~~ py\n~~~~', '* *', '__', '[a]()', '[a](<>)', '![]()', '# \\#', '***\n', '>\n>',
    '> \n> a',
    # identical siblings
    'a\n\na', '# a\n# a', '> a\n\n> a', '***\n***', '---\n---', '```\nx\n```\n```\nx\n```', '[foo]: /u\n[foo]: /u\n\n[foo]',
    '    a\n\n    a', '<div>\n</div>\n\n<div>\n</div>', 'a\n===\na\n===', 'a\n---\na\n---', '- a\n- a\n\n- a\n- a', '*a* *a*',
    '`a` `a`', '[a](/u) [a](/u)', '<b><b>', '| a |\n| - |\n\n| a |\n| - |', '> > a\n\n> > a', '1. a\n1. a', 'a  \na  \na',
    # non-ASCII / astral
    '\U0001f600', '# \U0001f600 #', '[\U0001f600](/\U0001f600 "\U0001f600")', '`\U0001f600`',
    '| \U0001f600 |\n| :-: |\n| \xe9 |', '[\U0001f600]: /\U0001f600 \'\xe9\'\n\n[\U0001f600]', '*\U0001f600*', '**\xe9**\xe9',
    '\U0001f600\n===', '- \U0001f600\n  \xe9', '> \U0001f600\n\U0001f600', '![\U0001f600](\xe9)', '<http://\xe9.\U0001f600/>',
    '~~\U0001f600~~', '```\U0001f600\n\U0001f600\n```', '    \U0001f600', '<\xe9>', '\xe9  \n\xe9', 'ＡＢ', 'á',
    '| \xe9 | \U0001f600\U0001f600\U0001f600\U0001f600 |\n| - | - |\n| \U0001f600 | e |', '[\xc9]: /u\n\n[\xe9]', 'ß\n\n[SS]: /u',
    # blank lines
    'a\n\n\n\nb', '\n\na', 'a\n\n', '> a\n>\n>\n> b', '> a\n\n> b', '- a\n\n\n  b', '```\n\n\nx\n\n```', '    a\n\n\n    b',
    '# a\n\n\n# b', '> a\n>\n\n>\n> b', '- a\n\n- b\n\n\n- c', '> ```\n> x\n>\n> y\n> ```', '- ```\n  x\n\n  y\n  ```',
    '>     a\n>\n>     b', '-     a\n\n      b', '<div>\n\n</div>', '<pre>\n\n\nx\n</pre>', '[foo]: /u\n\n\n[foo]',
    'a\n\n[foo]: /u\n\nb', '| a |\n| - |\n\n\nb', '***\n\n\n***',
]


def fam_misc():
    return [x for m in MISC for x in blocks_ctx(m.split('\n'))]


USPACES = ['\xa0', '\u3000']       # NO-BREAK SPACE, IDEOGRAPHIC SPACE


def fam_uspace():
    out = []
    for w in USPACES:
        for lines in ([w + '# a'], [w + '- a'], [w + '> a'], [w + '***'], [w + '1. a'], ['a', w + '# b'], ['a', w + '==='],
                      ['a', w + '- b'], [w + 'a'], ['a' + w], ['a', w + 'b'], ['#' + w + 'a'], ['-' + w + 'a'], ['a' + w + '#'],
                      ['*' + w + 'a*'], ['`' + w + 'a' + w + '`'], ['| a' + w + '|', '| - |'],
                      # a separator line made of this white space only: blank for the parser, so it must stay a blank line
                      ['a', w, 'b'], ['- a', w, '- b'], ['a', w + w, '[k]: /u', '', '[k]']):
            out.extend(blocks_ctx(lines, stacks=((), ('>',)), tails=((), ('z',))))
    return out


FAMILIES = [('lazy', fam_lazy), ('code', fam_code), ('inline', fam_inline), ('setext', fam_setext), ('cont', fam_cont),
            ('defs', fam_defs), ('tables', fam_tables), ('lists', fam_lists), ('misc', fam_misc), ('uspace', fam_uspace)]


def directed_families():
    """-> [(ident, text)], deterministic, without duplicates; ident = '<family>:<index in the family>'"""
    seen, out = set(t for _, t in DIRECTED), []
    for name, fn in FAMILIES:
        for i, x in enumerate(fn()):
            if x not in seen:
                seen.add(x)
                out.append(('%s:%d' % (name, i), x))
    return out


def html_of(text):
    _clean()
    with HtmlRenderer() as h:
        d = Document(text)
        out = h.render(d)
        return out, dict(d.footnotes)


def md_of(text, nw):
    _clean()
    with MarkdownRenderer(normalize_whitespace=nw) as r:
        return r.render(Document(text))


def check(x, nw, normal):
    """-> list of (contract, observed, expected); [] when all contracts hold"""
    bad = []
    try:
        r = md_of(x, nw)
        hx = html_of(x)
        hr = html_of(r)
        if hr != hx:
            bad.append(('c09a', {'markdown': r, 'html': hr[0], 'footnotes': hr[1]},
                        {'html': hx[0], 'footnotes': hx[1]}))
        rr = md_of(r, nw)
        if rr != r:
            bad.append(('c09b', rr, r))
        if normal and not nw and r != x:
            bad.append(('c09c', r, x))
    except Exception as e:                                        # noqa: BLE001
        bad.append(('noraise', '%s: %s' % (type(e).__name__, e), 'no exception'))
    return bad


_MARK = r'(?:[-+*]|\d{1,9}[.)])'
_PFX = r'(?:[> ]|%s(?= |$))*' % _MARK           # container prefixes: quote markers, blanks, list markers, in any order
_FENCE = re.compile(r'^%s(`{3,}|~{3,})[^`\n]*$' % _PFX)
_EMPTY_ITEM = re.compile(r'^%s%s *$' % (_PFX, _MARK))
_USPACE_START = re.compile(r'^%s[\xa0\u1680\u2000-\u200a\u202f\u205f\u3000]' % _PFX, re.M)


_GAINED = re.compile(r'^[> ]*(`{3,}|~{3,})[^\n]*\n[> ]*\n[> ]*\1 *$', re.M)


_READINGS = (lambda l: l, lambda l: re.sub(r'^[> ]*', '', l), lambda l: re.sub('^' + _PFX, '', l))


def _ncells(line, reading):
    """number of table cells of the line read as it is / without its quote markers / without all its container prefixes"""
    return len([c for c in re.split(r'(?<!\\)\|', reading(line).strip()) if c])


_NONCANON_ITEM = re.compile(r'^%s(?: {1,3}%s(?: |$)|%s {2,}\S)' % (_PFX, _MARK, _MARK), re.M)
_DEEP_QUOTED = re.compile(r'^%s> {5,}\S' % _PFX)


def _nquote(line):
    return re.match(_PFX, line).group(0).count('>')


def _nonblank(text):
    return len([l for l in text.split('\n') if l.strip('> ')])


def classify(x, contract, nw, fails_without_nw, observed=None, strict=False):
    """Heuristic root-cause slug from the (minimal) failing text.  `strict` (used for the directed documents, which
    are small and need no shrinking) narrows the three catch-all rules to the exact shape of their root cause, so that
    a failure with another cause is reported as 'unclassified' instead of being absorbed by a known class."""
    lines = x.split('\n')
    rendered = observed.get('markdown') if isinstance(observed, dict) else observed if isinstance(observed, str) else None
    if contract == 'noraise':
        return 'parser-raises-%s' % str(observed).split(':')[0].lower()
    if contract == 'c09c' and isinstance(observed, str) and \
            [l for l in observed.split('\n') if l.strip()] == [l for l in lines if l.strip()] and \
            re.search(r'^[> ]*(?:[-+*]|\d{1,9}[.)]) ', x, re.M) and re.search(r'\n[> ]*\n[> ]*\n', x):
        return 'extra-blank-lines-after-list-item-collapsed'
    if re.search(r'&(#\d+|#[xX][0-9a-fA-F]+|[A-Za-z][A-Za-z0-9]*);', x):
        return 'character-reference-decoded'
    if re.search(r'\]\([^)\n]*\\[^)\n]*\)', x) or re.search(r'^ {0,3}\[[^\]]+\]:.*\\', x, re.M):
        return 'escape-in-destination-or-title-dropped'
    if nw and not fails_without_nw and (not strict or _NONCANON_ITEM.search(x)):
        return 'nw-reindent-captures-following-indented-block'     # (strict: some item is not in the 'leader + 1 blank' form)
    if '\\|' in x:
        return 'table-escaped-pipe-unescaped'
    for i, l in enumerate(lines[:-1]):
        m = _FENCE.match(l)
        if m:
            nxt = lines[i + 1]
            body = re.sub(r'^[> ]*', '', nxt)
            if i + 1 == len(lines) - 1 or body.startswith(m.group(1)[0] * 3) and \
                    not body.strip(m.group(1)[0] + ' '):
                return 'empty-fenced-code-gains-line'
            break
    if isinstance(observed, dict) and _GAINED.search(observed.get('markdown', '')) and not _GAINED.search(x):
        return 'empty-fenced-code-gains-line'
    for i, l in enumerate(lines[:-1]):
        body = re.sub(r'^(?: {0,3}>[ ]?)+', '', l)
        if body != '' and body.strip() == '':
            return 'whitespace-only-line-blanked'
    for i, l in enumerate(lines[:-1]):
        if _EMPTY_ITEM.match(l) and i + 1 < len(lines) - 1 and \
                re.sub(r'^[> ]*', '', lines[i + 1]) == '':
            return 'empty-list-item-swallows-blank-lines'
    for i, l in enumerate(lines[:-2]):
        if '|' in l and re.fullmatch(r'[> ]*[-:| ]*-[-:| ]*', lines[i + 1]) and '|' in lines[i + 1]:
            j = i + 2
            while j < len(lines) and '|' in lines[j]:
                if any(_ncells(lines[j], rd) > max(_ncells(l, rd), _ncells(lines[i + 1], rd)) for rd in _READINGS):
                    return 'table-row-wider-than-header-widens-table'
                j += 1
    if contract == 'c09b' and re.search(r'^[> ]*#{1,6}( +#+)+ *$', x, re.M):
        return 'empty-atx-heading-closing-sequence-lost-on-second-pass'
    if _USPACE_START.search(x):
        return 'unicode-space-at-line-start-stripped'
    if re.search(r'^[> ]*(?:[-+*]|\d{1,9}[.)]) *\n[> ]*[^> \n]', x, re.M) and \
            (not strict or rendered is not None and _nonblank(rendered) < _nonblank(x)):
        return 'blank-first-line-item-joined-to-marker-line'        # (strict: two lines were in fact joined)
    for i, l in enumerate(lines[:-1]):
        if i and l.strip() and not l.lstrip().startswith('>') and lines[i - 1].lstrip().startswith('>') and not strict:
            return 'unquoted-line-after-quote-lazy-heuristic-flips'
        # strict: a line with fewer quote markers right after a quoted line whose content is indented >= 4 (the
        # indentation Quote.read takes for "inside a code block", which the renderer then changes)
        if i and l.strip() and strict and _DEEP_QUOTED.match(lines[i - 1]) and _nquote(l) < _nquote(lines[i - 1]):
            return 'unquoted-line-after-quote-lazy-heuristic-flips'
    return 'unclassified'


def nontrivial(hx):
    """rule: the HTML of x has at least one element other than <p> (some construct is present)"""
    return bool(re.search(r'<(?!/|p>)', hx))


def _trim(v, n=3000):
    if isinstance(v, str):
        return v if len(v) <= n else v[:n] + '...[%d chars]' % len(v)
    if isinstance(v, dict):
        return {k: _trim(w, n) for k, w in v.items()}
    return v


def work(job):
    chunk, per_chunk = job
    res = {'evaluations': 0, 'contract_evaluations': 0, 'failures': [], 'samples': [],
           'nontrivial': [], 'failing_cases': 0, 'shrink_evals': 0, 'kinds': {}, 'maxdepth': 0}
    shrunk = 0
    for case in chunk:
        if case[0] == 'spec':
            tree, x, normal, ident = None, case[2], False, 'spec:%d' % case[1]
        elif case[0] == 'directed':
            tree, x, normal, ident = None, case[2], case[3] == 'normal', 'directed:%s' % case[1]
        else:
            tree, x = mdgen.gen(case[2], case[1])
            normal, ident = case[1] == 'normal', 'gen:%s:%d' % (case[1], case[2])
            for k, v in mdgen.kinds_in(tree).items():
                res['kinds'][k] = res['kinds'].get(k, 0) + v
            res['maxdepth'] = max(res['maxdepth'], mdgen.depth_of(tree))
        try:
            if nontrivial(html_of(x)[0]):
                res['nontrivial'].append(hash(x))
        except Exception:                                         # noqa: BLE001
            pass
        if len(res['samples']) < 2 and tree is not None:
            res['samples'].append({'id': ident, 'markdown': x})
        per_nw = {}
        for nw in (False, True):
            bad = check(x, nw, normal)
            per_nw[nw] = {b[0] for b in bad}
            res['evaluations'] += 1
            res['contract_evaluations'] += 4 if normal and not nw else 3
            for contract, observed, expected in bad:
                res['failing_cases'] += 1
                mx = x
                if tree is not None and shrunk < per_chunk:
                    shrunk += 1

                    def fails(t, contract=contract, nw=nw, normal=normal):
                        return any(b[0] == contract for b in check(t, nw, normal))
                    _, mx, used = mdgen.shrink(tree, fails, SHRINK_BUDGET, normal=normal)
                    res['shrink_evals'] += used
                    again = [b for b in check(mx, nw, normal) if b[0] == contract]
                    if again:
                        observed, expected = again[0][1], again[0][2]
                    else:
                        mx = x
                if case[0] == 'spec':
                    key = '%s|%s|nw=%s' % (contract, ident, nw)
                    cls = SPEC_CLASS.get(case[1])
                else:
                    key = '%s|%r|nw=%s' % (contract, mx, nw)
                    cls = None
                if cls is None:
                    without = contract in per_nw.get(False, ()) if nw else True
                    if nw and mx != x:
                        without = any(b[0] == contract for b in check(mx, False, normal))
                    cls = classify(mx, contract, nw, without, observed, strict=case[0] == 'directed')
                res['failures'].append({
                    'key': key, 'contract': contract, 'class': cls,
                    'input': {'markdown': mx, 'normalize_whitespace': nw, 'source': ident},
                    'observed': _trim(observed), 'expected': _trim(expected),
                    'replay': ('from mistletoe import Document, HtmlRenderer; '
                               'from mistletoe.markdown_renderer import MarkdownRenderer\n'
                               'x = %r\nwith MarkdownRenderer(normalize_whitespace=%s) as m: r = m.render(Document(x))\n'
                               'with MarkdownRenderer(normalize_whitespace=%s) as m: rr = m.render(Document(r))\n'
                               'with HtmlRenderer() as h: hx = h.render(Document(x))\n'
                               'with HtmlRenderer() as h: hr = h.render(Document(r))\n'
                               'print(hx == hr, rr == r, r == x)' % (mx, nw, nw))})
    return res


def reshrink(f):
    """second, thorough minimisation of a failure that the first pass left unexplained"""
    _, mode, ident = f['input']['source'].split(':')
    contract, nw, normal = f['contract'], f['input']['normalize_whitespace'], mode == 'normal'
    tree, x = mdgen.gen(int(ident), mode)

    def fails(t):
        return any(b[0] == contract for b in check(t, nw, normal))
    if not fails(x):
        return f
    _, mx, _ = mdgen.shrink(tree, fails, 2500, normal=normal)
    again = [b for b in check(mx, nw, normal) if b[0] == contract]
    if not again:
        return f
    g = dict(f)
    g['key'] = '%s|%r|nw=%s' % (contract, mx, nw)
    g['input'] = dict(f['input'], markdown=mx)
    g['observed'], g['expected'] = _trim(again[0][1]), _trim(again[0][2])
    without = any(b[0] == contract for b in check(mx, False, normal)) if nw else True
    g['class'] = classify(mx, contract, nw, without, again[0][1])
    g['replay'] = f['replay'].replace('x = %r\n' % f['input']['markdown'], 'x = %r\n' % mx)
    return g


def select(failures, n):
    """the 3 smallest inputs of every (contract, class), then the globally smallest, n in all"""
    order = lambda f: (len(f['input']['markdown']), f['input']['markdown'], f['key'])  # noqa: E731
    fl = sorted(failures, key=order)
    per, first, rest = {}, [], []
    for f in fl:
        c = (f['contract'], f['class'])
        per[c] = per.get(c, 0) + 1
        (first if per[c] <= 3 else rest).append(f)
    return sorted((first + rest)[:max(n, len(first))][:n] if len(first) <= n else first[:n], key=order)


def run(tier, seed, workers):
    t = Timer()
    n_free, n_normal = (10000, 5000) if tier == 'quick' else (200000, 80000)
    base = seed * 10_000_000
    cases = [('spec', e['example'], e['markdown']) for e in spec_examples()]
    cases += [('directed', 'known:%d' % i, text, mode) for i, (mode, text) in enumerate(DIRECTED)]
    fams = directed_families()
    cases += [('directed', ident, text, 'free') for ident, text in fams]
    fam_counts = {}
    for ident, _ in fams:
        fam_counts[ident.split(':')[0]] = fam_counts.get(ident.split(':')[0], 0) + 1
    cases += [('gen', 'free', base + i) for i in range(n_free)]
    cases += [('gen', 'normal', base + i) for i in range(n_normal)]
    chunks = [cases[i:i + CHUNK] for i in range(0, len(cases), CHUNK)]
    per_chunk = SHRINK_PER_CHUNK if tier == 'quick' else 1
    out = {'evaluations': 0, 'contract_evaluations': 0, 'failing_cases': 0, 'shrink_evals': 0}
    failures, samples, nontriv, kinds, maxdepth = {}, [], set(), {}, 0
    seen, classes = set(), {}
    order = lambda f: (len(f['input']['markdown']), f['input']['markdown'], f['key'])  # noqa: E731
    step = max(1, workers) * 40
    for lo in range(0, len(chunks), step):
        for p in pool_map(work, [(c, per_chunk) for c in chunks[lo:lo + step]], workers):
            for k in out:
                out[k] += p[k]
            nontriv.update(p['nontrivial'])
            for k, v in p['kinds'].items():
                kinds[k] = kinds.get(k, 0) + v
            maxdepth = max(maxdepth, p['maxdepth'])
            if len(samples) < 8:
                samples.extend(p['samples'][:1])
            for f in p['failures']:
                h = hash(f['key'])
                if h not in seen:
                    seen.add(h)
                    c = '%s|%s' % (f['contract'], f['class'])
                    classes[c] = classes.get(c, 0) + 1
                    failures[f['key']] = f
        if os.environ.get('VERIF_PROGRESS'):
            sys.stderr.write('b09: %d/%d work items, %.0f s\n' % (min(lo + step, len(chunks)), len(chunks), t.s()))
        if len(failures) > 4 * MAX_FAILURES + 2000:       # bound the memory: keep the smallest
            failures = {f['key']: f for f in select(failures.values(), MAX_FAILURES + 200)}
    # failures the heuristics could not attribute: minimise them again, without the per-item limits
    todo = [f for f in sorted(failures.values(), key=order)
            if f['class'] == 'unclassified' and f['input']['source'].startswith('gen:')][:96]
    for f, g in zip(todo, pool_map(reshrink, todo, workers)):
        if g is not f:
            c_old = '%s|%s' % (f['contract'], f['class'])
            c_new = '%s|%s' % (g['contract'], g['class'])
            classes[c_old] -= 1
            if not classes[c_old]:
                del classes[c_old]
            failures.pop(f['key'])
            if g['key'] in failures:
                seen.discard(hash(f['key']))
            else:
                failures[g['key']] = g
                seen.add(hash(g['key']))
                seen.discard(hash(f['key']))
                classes[c_new] = classes.get(c_new, 0) + 1
    fl = select(failures.values(), MAX_FAILURES)
    by_class, minimal = {}, {}
    for c, v in classes.items():
        by_class[c.split('|', 1)[1]] = by_class.get(c.split('|', 1)[1], 0) + v
    for f in sorted(failures.values(), key=order):
        minimal.setdefault(f['class'], {'contract': f['contract'], 'key': f['key'], 'input': f['input']})
    out.update({
        'domain': ('SPEC: the 652 CommonMark 0.30 examples; DIRECTED (seed-independent): %d documents, one per '
                   'known root-cause class, + %d documents of the systematic families %s (lazy continuation '
                   'lines ending in a setext underline / block start at quote depth 1-3 and in list items; code '
                   'spans starting/ending with a line break; emphasis, links, images, reference links, raw HTML '
                   'broken across lines at their delimiters; multi-line setext headings; paragraph continuation '
                   'lines starting with block-start characters; link definitions with multi-line parts; tables '
                   'with short/over-long/lazy rows, empty cells, escaped pipes; nested lists with different '
                   'markers and indents; empty content, identical siblings, non-ASCII/astral text, blank-line '
                   'runs; Unicode spaces at line starts), each family member in the container contexts '
                   'top level / quote / list item / quote-in-list / list-in-quote / depth 3; '
                   'DOCS: %d mdgen documents in mode free '
                   '(every block/inline construct, canonical and non-canonical spellings, container '
                   'nesting <= 4, measured max depth %d) + %d in mode normal (renderer normal form), '
                   'generator seeds %d.. ; each x normalize_whitespace in {False, True}. Excluded by '
                   'construction: character references, backslashes in link destinations/titles, '
                   'paragraph continuation lines indented >= 4, tabs, non-\\n line separators'
                   % (len(DIRECTED), len(fams), json.dumps(fam_counts, sort_keys=True).replace('"', ''),
                      n_free, maxdepth, n_normal, base)),
        'rule': ('seeded structural generation (runtime/mdgen.py); a case is non-trivial iff the '
                 'HTML of x contains an element other than <p>; distinct_nontrivial counts distinct '
                 'such documents; contracts per case: noraise, c09a, c09b (+ c09c for mode normal, nw=False)'),
        'distinct_nontrivial': len(nontriv),
        'exhaustive': False,
        'samples': samples[:8],
        'node_kind_counts': kinds,
        'directed_family_counts': fam_counts,
        'failures_total': len(seen),
        'class_counts': classes,
        'failures_by_class': by_class,
        'minimal_input_per_class': minimal,
        'failures': fl,
        'elapsed_s': round(t.s(), 1),
    })
    return out
