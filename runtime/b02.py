"""C02 (bounded, exhaustive over the quantifier): the 652 vendored CommonMark 0.30 examples.

contract  normalize(HtmlRenderer(html_escape_double_quotes=True).render(Document(md))) == normalize(expected)
with `normalize` = the specification's own test-driver normalisation (runtime/spec_normalize.py).
Exact string equality is recorded as a secondary statistic ('exact_equal').
"""
from runtime.common import use_repo, spec_examples, pool_map, merge, chunks
from runtime.spec_normalize import normalize

use_repo()
from mistletoe import Document  # noqa: E402
from mistletoe.html_renderer import HtmlRenderer  # noqa: E402


def work(examples):
    fails, exact, nontriv = [], 0, 0
    for e in examples:
        md, want, n = e['markdown'], e['html'], e['example']
        try:
            with HtmlRenderer(html_escape_double_quotes=True) as r:
                got = r.render(Document(md))
            err = None
        except BaseException as ex:  # noqa
            if isinstance(ex, (KeyboardInterrupt, SystemExit)):
                raise
            got, err = None, '%s: %s' % (type(ex).__name__, ex)
            from mistletoe import block_token, span_token
            block_token.reset_tokens()
            span_token.reset_tokens()
        if got is not None and got == want:
            exact += 1
        if '<' in want.replace('<p>', '').replace('</p>', ''):
            nontriv += 1
        if err is None and normalize(got) == normalize(want):
            continue
        fails.append({'key': 'c02|example:%d' % n, 'contract': 'c02' if err is None else 'noraise',
                      'class': 'section:' + e['section'].lower().replace(' ', '-'),
                      'input': md, 'section': e['section'], 'observed': err or got, 'expected': want,
                      'replay': 'from mistletoe import Document, HtmlRenderer\nwith HtmlRenderer('
                                'html_escape_double_quotes=True) as r: print(r.render(Document(%r)))' % md})
    return {'evaluations': len(examples), 'contract_evaluations': len(examples), 'distinct_nontrivial': nontriv,
            'failures': fails, 'exact': exact, 'samples': [examples[0]['markdown']] if examples else []}


def run(tier, seed, workers):
    ex = spec_examples()
    res = pool_map(work, chunks(ex, max(1, min(workers, 8))), min(workers, 8))
    out = merge(res)
    out['failures'].sort(key=lambda f: int(f['key'].split(':')[1]))
    out.update({
        'domain': 'all %d examples of corpus/commonmark-0.30.json (26 sections), both tiers' % len(ex),
        'rule': 'every example once; non-trivial = expected HTML contains an element other than <p>',
        'exhaustive': True, 'exact_equal': sum(r['exact'] for r in res),
        'failures_total': len(out['failures']),
        'failures_by_class': {c: sum(1 for f in out['failures'] if f['class'] == c) for c in sorted({f['class'] for f in out['failures']})}})
    return out
