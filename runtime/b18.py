"""C18 (bounded tier): the HTML-based contrib renderers conservatively extend HtmlRenderer.

Differential runtime contract, for R in TocRenderer, GithubWikiRenderer, MathJaxRenderer,
PygmentsRenderer and every option combination o of {process_html_tokens,
html_escape_double_quotes, html_escape_single_quotes}:

    side(R, x)  =>  with R(**o) as r: r.render(Document(x))
                    ==  (with HtmlRenderer(**o) as h: h.render(Document(x)))  [+ mathjax_src]

side conditions (from the property statement): Toc: none; GithubWiki: '[[' not in x; MathJax:
'$' not in x; Pygments: the document parsed under HtmlRenderer(**o) contains no BlockCode /
CodeFence token.  If the base renderer raises, R must raise the same exception type.
"""
import itertools
import re

from runtime.common import use_repo, spec_examples, chunks, Timer, SIGMA12

use_repo()

OPT_NAMES = ('process_html_tokens', 'html_escape_double_quotes', 'html_escape_single_quotes')
OPTS8 = list(itertools.product((False, True), repeat=3))
OPTS2 = [(False, False, False), (True, True, True)]
OPTS4 = [o for o in OPTS8 if o[1] == o[2]]
RENDERERS = ('TocRenderer', 'GithubWikiRenderer', 'MathJaxRenderer', 'PygmentsRenderer')
MUT_CHARS = list('*_`[]>-#|<&"\'\\()!~=:') + ['\n', ' ']
_NONTRIVIAL = re.compile(r'<(?!/?p>)')


def _cls(name):
    if name == 'HtmlRenderer':
        from mistletoe import HtmlRenderer
        return HtmlRenderer
    if name == 'TocRenderer':
        from mistletoe.contrib.toc_renderer import TocRenderer
        return TocRenderer
    if name == 'GithubWikiRenderer':
        from mistletoe.contrib.github_wiki import GithubWikiRenderer
        return GithubWikiRenderer
    if name == 'MathJaxRenderer':
        from mistletoe.contrib.mathjax import MathJaxRenderer
        return MathJaxRenderer
    if name == 'PygmentsRenderer':
        from mistletoe.contrib.pygments_renderer import PygmentsRenderer
        return PygmentsRenderer
    raise KeyError(name)


def _has_code(tok):
    name = type(tok).__name__
    if name == 'BlockCode' or name == 'CodeFence':
        return True
    ch = tok.children
    if ch is not None and not isinstance(ch, str):
        for c in ch:
            if _has_code(c):
                return True
    hdr = getattr(tok, 'header', None) if name == 'Table' else None
    return hdr is not None and _has_code(hdr)


def _render_all(name, opts, inputs, want_code=False, skip=None):
    """-> list of ('ok', output, has_code) | ('exc', type name, message) | None where skipped"""
    from mistletoe import Document
    cls = _cls(name)
    kw = dict(zip(OPT_NAMES, opts))
    outs = []
    r = None
    try:
        for i, x in enumerate(inputs):
            if skip is not None and skip[i]:
                outs.append(None)
                continue
            if r is None:
                r = cls(**kw)
                r.__enter__()
            try:
                doc = Document(x)
                out = r.render(doc)
                outs.append(('ok', out, _has_code(doc) if want_code else None))
            except Exception as e:  # noqa
                outs.append(('exc', type(e).__name__, str(e)[:200]))
                try:
                    r.__exit__(None, None, None)
                finally:
                    r = None
    finally:
        if r is not None:
            r.__exit__(None, None, None)
    return outs


def _side(name, x, has_code):
    if name == 'GithubWikiRenderer':
        return '[[' not in x
    if name == 'MathJaxRenderer':
        return '$' not in x
    if name == 'PygmentsRenderer':
        return not has_code
    return True


def _run(job):
    dom, inputs, optlist = job
    res = {'evaluations': 0, 'distinct_nontrivial': 0, 'contract_evaluations': 0,
           'failures': [], 'samples': [], 'excluded': 0}
    fails = {}
    for opts in optlist:
        base = _render_all('HtmlRenderer', opts, inputs, want_code=True)
        for b, x in zip(base, inputs):
            res['evaluations'] += 1
            if b[0] == 'ok' and _NONTRIVIAL.search(b[1]):
                res['distinct_nontrivial'] += 1
        for name in RENDERERS:
            suffix = _cls(name).mathjax_src if name == 'MathJaxRenderer' else ''
            skip = [not _side(name, x, b[2] if b[0] == 'ok' else False)
                    for x, b in zip(inputs, base)]
            outs = _render_all(name, opts, inputs, skip=skip)
            for x, b, o in zip(inputs, base, outs):
                if o is None:
                    res['excluded'] += 1
                    continue
                res['contract_evaluations'] += 1
                if b[0] == 'ok':
                    ok = o[0] == 'ok' and o[1] == b[1] + suffix
                else:
                    ok = o[0] == 'exc' and o[1] == b[1]
                if not ok:
                    key = 'extends-html:%s|%r' % (name, x)
                    f = fails.get(key)
                    if f is None:
                        kw = dict(zip(OPT_NAMES, opts))
                        fails[key] = f = {
                            'key': key, 'contract': 'extends-html:' + name,
                            'class': _classify(name, b, o, suffix), 'domain': dom, 'input': x,
                            'options_failing': [],
                            'observed': o[1] if o[0] == 'ok' else 'raises %s: %s' % (o[1], o[2]),
                            'expected': (b[1] + suffix) if b[0] == 'ok'
                            else 'raises %s: %s' % (b[1], b[2]),
                            'replay': 'from mistletoe import Document, HtmlRenderer\n'
                                      'from %s import %s as R\n'
                                      'with R(**%r) as r: a = r.render(Document(%r))\n'
                                      'with HtmlRenderer(**%r) as r: b = r.render(Document(%r))\n'
                                      'print(a == b%s)'
                                      % (_cls(name).__module__, name, kw, x, kw, x,
                                         ' + R.mathjax_src' if suffix else '')}
                    f['options_failing'].append(dict(zip(OPT_NAMES, opts)))
    res['failures'] = list(fails.values())
    if inputs:
        res['samples'] = [{'domain': dom, 'input': inputs[len(inputs) // 2]}]
    return res


def _classify(name, b, o, suffix):
    short = name.replace('Renderer', '').lower()
    if o[0] == 'exc' and b[0] == 'ok':
        return '%s-raises-%s' % (short, o[1])
    if o[0] == 'ok' and b[0] == 'exc':
        return '%s-swallows-%s' % (short, b[1])
    if o[0] == 'exc':
        return '%s-raises-other-exception' % short
    if suffix and not o[1].endswith(suffix):
        return '%s-script-line-missing' % short
    return '%s-output-differs' % short


def _run_alpha(job):
    prefix, total, nopts = job
    k = total - len(prefix)
    inputs = [prefix + ''.join(t) for t in itertools.product(SIGMA12, repeat=k)]
    return _run(('ALPHA', inputs, OPTS8 if nopts == 8 else OPTS2))


def _dispatch(job):
    fn, arg = job
    return fn(arg)


def _pmap(jobs, workers):
    if workers <= 1:
        return [_dispatch(j) for j in jobs]
    import multiprocessing as mp
    with mp.get_context('fork').Pool(workers) as p:
        return p.map(_dispatch, jobs, chunksize=1)


def run(tier, seed, workers):
    T = Timer()
    thorough = tier == 'thorough'
    alpha_n = 6 if thorough else 5
    alpha_opts = 8 if thorough else 2
    mut_maxlen = 10 ** 9 if thorough else 40
    mut_chars = MUT_CHARS if thorough else MUT_CHARS[:12]
    sig = set(SIGMA12)

    def in_alpha(s):
        return len(s) <= alpha_n and all(c in sig for c in s)

    spec = list(dict.fromkeys(e['markdown'] for e in spec_examples()))
    seen = set(spec)
    muts = []
    for x in spec:
        if len(x) > mut_maxlen:
            continue
        for i in range(len(x) + 1):
            for c in mut_chars:
                y = x[:i] + c + x[i:]
                if y not in seen and not in_alpha(y):
                    seen.add(y)
                    muts.append(y)
            if i < len(x):
                y = x[:i] + x[i + 1:]
                if y not in seen and not in_alpha(y):
                    seen.add(y)
                    muts.append(y)
    jobs = []
    for ch in chunks(spec, workers):
        jobs.append((_run, ('SPEC', ch, OPTS8)))
    for ch in chunks(muts, workers * 8):
        jobs.append((_run, ('SPEC-mutations', ch, OPTS8 if thorough else OPTS4)))
    n_alpha = 0
    for L in range(0, alpha_n + 1):
        plen = 0 if L < 3 else 2 if L < 6 else 3
        for p in itertools.product(SIGMA12, repeat=plen):
            jobs.append((_run_alpha, (''.join(p), L, alpha_opts)))
        n_alpha += len(SIGMA12) ** L

    def weight(j):
        fn, a = j
        if fn is _run_alpha:
            return len(SIGMA12) ** (a[1] - len(a[0])) * a[2]
        return sum(len(s) + 20 for s in a[1]) * len(a[2]) // 12
    jobs.sort(key=weight, reverse=True)
    results = _pmap(jobs, workers)

    out = {'evaluations': 0, 'distinct_nontrivial': 0, 'contract_evaluations': 0}
    excluded = 0
    fails = {}
    samples = []
    for r in results:
        for k in out:
            out[k] += r[k]
        excluded += r['excluded']
        for f in r['failures']:
            g = fails.get(f['key'])
            if g is None:
                fails[f['key']] = f
            else:
                g['options_failing'].extend(f['options_failing'])
        if r['samples'] and len(samples) < 8:
            samples.extend(r['samples'][:1])
    fl = sorted(fails.values(), key=lambda f: (len(f['input']), f['input'], f['contract']))
    classes = {}
    minimal = {}
    for f in fl:
        classes[f['class']] = classes.get(f['class'], 0) + 1
        if f['class'] not in minimal:
            minimal[f['class']] = {'contract': f['contract'], 'input': f['input'],
                                   'options_failing': f['options_failing'][:1],
                                   'observed': f['observed'], 'expected': f['expected']}
    out.update({
        'domain': (
            'for every input x and option combination o: HtmlRenderer(**o) vs each of %s(**o), '
            'each used as a context manager on Document(x); inputs = SPEC (%d CommonMark 0.30 '
            'example sources) x 8 option combinations + %d single-character mutations (insert '
            'one of %r at every position, delete every position; examples of length <= %s) x %s '
            'option combinations + ALPHA(SIGMA12=%r, %d): all %d strings x %d option '
            'combinations%s; %d (renderer, x, o) triples were excluded by the side conditions'
            % (', '.join(RENDERERS), len(spec), len(muts), ''.join(mut_chars),
               'any (no length limit)' if thorough else mut_maxlen,
               '8' if thorough else '4 (process_html_tokens x both quote options equal)',
               ''.join(SIGMA12), alpha_n, n_alpha,
               alpha_opts, '' if alpha_opts == 8 else ' (all options off / all on)', excluded)),
        'rule': 'a case is one (x, o); it is non-trivial when the base HTML output contains an '
                'element other than <p>; one contract evaluation per (renderer, x, o) that meets '
                'the side condition. Failures are aggregated per (renderer, x) over o.',
        'exhaustive': True,
        'samples': samples,
        'failures_total': len(fl),
        'failures_by_class': classes,
        'minimal_input_per_class': minimal,
        'failures': fl[:400],
        'time_s': round(T.s(), 1),
    })
    return out
