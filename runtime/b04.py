"""C04 (bounded): quoting or list-indenting a document wraps its parse unchanged (spec 5.1 / 5.2
"basic case").

For a tab-free text T (trailing blank lines stripped, first line not blank), parsed under the
HtmlRenderer token set (CommonMark constructs incl. HTML blocks):

  quote law  m in {'> ', '>'}:   E_q(T,m) = m prepended to EVERY line
      children(Document(E_q)) == [Quote(children(Document(T)))]          and footnotes equal
      precondition for m == '>': no line of T starts with a space (it would be eaten as the
      optional space of the marker -- a different marker, spec 5.1)
  list law   marker in {+ - * 1. 7) 123.} x pad 1..4,  W = len(marker)+pad:
      E_l = marker + pad spaces + first line; W spaces + every other non-empty line; '' stays ''
      children(Document(E_l)) == [List([ListItem(children(Document(T)))])]  and footnotes equal
      preconditions: T starts with a non-space character; the embedded first line is not a
      thematic break (spec 4.1 takes precedence: '- ' + '- -'); T has no whitespace-only line that
      is not empty (spec text and reference implementation disagree on how much of such a line
      belongs to the item, so no expectation is derived).
Dumps are compared without line numbers (runtime/astdump.py, all public attributes).
"""
import re

from runtime.common import use_repo, spec_examples, SIGMA12, pool_map, merge
from runtime.astdump import dump_children, diff, brief
from runtime.mtutil import reset_state, BLOCKS, keep_smallest

use_repo()
from mistletoe import Document  # noqa: E402
from mistletoe.html_renderer import HtmlRenderer  # noqa: E402

MAX_KEEP = 400
QM = ('> ', '>')
LM = [(m, p) for m in ('+', '-', '*', '1.', '7)', '123.') for p in (1, 2, 3, 4)]
# quick tier, enumerated strings only: every marker with pad 1, and '-' / '1.' with every pad
LM_SMALL = [(m, p) for m, p in LM if p == 1 or m in ('-', '1.')]
SIGMA11 = [c for c in SIGMA12 if c != '\t']
THEMATIC = re.compile(r' {0,3}(?:(?:\*[ \t]*){3,}|(?:-[ \t]*){3,}|(?:_[ \t]*){3,})$')   # spec 4.1


def prep(text):
    """-> list of lines of an admissible T, or None."""
    if '\t' in text or '\r' in text:
        return None
    lines = text.split('\n')
    while lines and lines[-1].strip() == '':
        lines.pop()
    if not lines or lines[0].strip() == '':
        return None
    return lines


def e_quote(lines, m):
    return ''.join(m + l + '\n' for l in lines)


def e_list(lines, marker, pad):
    w = ' ' * (len(marker) + pad)
    return ''.join([marker + ' ' * pad + lines[0] + '\n'] + [(w + l if l else '') + '\n' for l in lines[1:]])


def parse(text):
    try:
        d = Document(text)
        return dump_children(d), dict(d.footnotes), None
    except RecursionError:
        raise
    except Exception as e:  # noqa
        reset_state()
        return None, None, '%s: %s' % (type(e).__name__, e)


def kinds(nodes, acc=None):
    acc = set() if acc is None else acc
    for n in nodes:
        acc.add(n['t'])
        if n.get('c') and n['t'] in ('Quote', 'List', 'ListItem'):
            kinds(n['c'], acc)
    return acc


def classify(law, lines, base, got):
    """Root-cause slug of a disagreement (attribution only; does not affect the verdict)."""
    bk, gk = kinds(base), kinds(got or [])
    if law == 'quote':
        if 'SetextHeading' in bk and 'SetextHeading' not in gk:
            return 'setext-heading-not-recognised-in-quote'
        if 'SetextHeading' in gk and 'Quote' in bk:
            return 'nested-quote-reenables-setext-in-outer-quote'
        if 'SetextHeading' in bk:
            return 'setext-in-quote-other'
    if any(l.strip() == '' and l for l in lines):
        return 'whitespace-only-line'
    return 'unclassified'


def check(text, stats, fails, seen, lm=LM):
    lines = prep(text)
    if lines is None:
        return
    T = '\n'.join(lines) + '\n'
    if T in seen:
        return
    seen.add(T)
    stats['evaluations'] += 1
    base, bfoot, err = parse(T)
    if err:
        fails.append(fail('noraise', T, None, None, err, 'no exception', 'c01:' + err.split(':')[0]))
        return
    if len(base) > 1 or (base and not (base[0]['t'] == 'Paragraph' and all(c['t'] in ('RawText', 'LineBreak') for c in base[0]['c']))):
        stats['distinct_nontrivial'] += 1
    lead_space = any(l.startswith(' ') for l in lines)
    for m in QM:
        if m == '>' and lead_space:
            continue
        stats['contract_evaluations'] += 1
        E = e_quote(lines, m)
        got, gfoot, err = parse(E)
        if err:
            fails.append(fail('noraise', T, 'quote:%r' % m, E, err, 'no exception', 'c01:' + err.split(':')[0]))
            continue
        want = [{'t': 'Quote', 'a': {}, 'c': base}]
        if got != want:
            inner = got[0]['c'] if len(got) == 1 and got[0]['t'] == 'Quote' else None
            fails.append(fail('c04-quote', T, 'quote:%r' % m, E,
                              diff(got, want) + ' || ' + brief(got), brief(want), classify('quote', lines, base, inner if inner is not None else got)))
        elif gfoot != bfoot:
            fails.append(fail('c04-quote-footnotes', T, 'quote:%r' % m, E, gfoot, bfoot, 'footnotes-differ'))
    if lines[0][0] == ' ' or any(l and l.strip() == '' for l in lines):
        return
    for marker, pad in lm:
        E = e_list(lines, marker, pad)
        if THEMATIC.match(E.split('\n', 1)[0]):
            continue
        stats['contract_evaluations'] += 1
        got, gfoot, err = parse(E)
        emb = 'list:%s+%d' % (marker, pad)
        if err:
            fails.append(fail('noraise', T, emb, E, err, 'no exception', 'c01:' + err.split(':')[0]))
            continue
        ok = (len(got) == 1 and got[0]['t'] == 'List' and len(got[0]['c']) == 1
              and got[0]['c'][0]['t'] == 'ListItem' and got[0]['c'][0]['c'] == base)
        if not ok:
            inner = got[0]['c'][0]['c'] if got and got[0]['t'] == 'List' and len(got) == 1 and len(got[0]['c']) == 1 else None
            d = diff(inner, base) if inner is not None else 'not a single one-item list'
            fails.append(fail('c04-list', T, emb, E, '%s || %s' % (d, brief(got)),
                              'List[ListItem' + brief(base) + ']', classify('list', lines, base, inner if inner is not None else got)))
        elif gfoot != bfoot:
            fails.append(fail('c04-list-footnotes', T, emb, E, gfoot, bfoot, 'footnotes-differ'))


def fail(contract, T, emb, E, observed, expected, klass):
    return {'key': '%s|%s|%r' % (contract, emb, T) if emb else '%s|%r' % (contract, T), 'contract': contract,
            'class': klass, 'input': T, 'embedding': emb, 'embedded': E, 'observed': observed, 'expected': expected,
            'replay': 'from mistletoe import Document, HtmlRenderer\nwith HtmlRenderer() as r:\n    '
                      'print(r.render(Document(%r)))\n    print(r.render(Document(%r)))' % (T, E if E is not None else T)}


# ------------------------------------------------------------------------------------------ domain

def handcrafted():
    out = []
    for i, a in enumerate(BLOCKS):
        out.append(a)
        for j, b in enumerate(BLOCKS):
            out.append(a + ('\n\n' if (i + j) % 3 else '\n') + b)
    return out


def spec_variants():
    ex = [e['markdown'] for e in spec_examples()]
    out = list(ex)
    for i, md in enumerate(ex):
        ls = md.split('\n')
        for k in range(len(ls)):                      # single-line deletions
            out.append('\n'.join(ls[:k] + ls[k + 1:]))
        other = ex[(i * 31 + 7) % len(ex)].split('\n')  # splices with a fixed partner example
        for k in range(1, len(ls)):
            out.append('\n'.join(ls[:k] + other))
            out.append('\n'.join(other[:max(1, len(other) // 2)] + ls[k:]))
    return out


def tasks(tier):
    n = 6 if tier == 'thorough' else 5
    fx = sorted(_fixed_set())
    out = [('fixed', fx[i::32]) for i in range(32)]
    for L in range(0, n + 1):
        p = max(0, L - 3)
        import itertools
        for pre in itertools.product(SIGMA11, repeat=p):
            out.append(('alpha', L, ''.join(pre)))
    return [t for i in range(16) for t in out[i::16]]


def work(arg):
    import itertools
    task, tier = arg
    stats = {'evaluations': 0, 'distinct_nontrivial': 0, 'contract_evaluations': 0}
    fails, seen = [], set()
    with HtmlRenderer():
        if task[0] == 'fixed':
            for x in task[1]:
                check(x, stats, fails, seen)
        else:
            _, L, pre = task
            fixed = _fixed_set()
            for t in itertools.product(SIGMA11, repeat=L - len(pre)):
                x = pre + ''.join(t)
                # canonical representative only: prep() strips trailing blank lines
                if x.endswith('\n') or x.endswith(' ') and x.strip(' ').endswith('\n') or x in fixed:
                    continue
                check(x, stats, fails, seen, LM if tier == 'thorough' else LM_SMALL)
    reset_state()
    by_class = {}
    for f in fails:
        by_class[f['class']] = by_class.get(f['class'], 0) + 1
    stats.update({'failures': keep_smallest(fails, MAX_KEEP), 'failures_total': len(fails), 'by_class': by_class,
                  'samples': [x for x in list(seen)[:1]] if task[0] == 'fixed' else []})
    return stats


_FIXED = None


def _fixed_set():
    global _FIXED
    if _FIXED is None:
        _FIXED = set()
        for x in handcrafted() + spec_variants():
            ls = prep(x)
            if ls:
                _FIXED.add('\n'.join(ls))
    return _FIXED


def run(tier, seed, workers):
    ts = tasks(tier)
    res = pool_map(work, [(t, tier) for t in ts], workers)
    out = merge(res)
    by_class = {}
    for r in res:
        for k, v in r['by_class'].items():
            by_class[k] = by_class.get(k, 0) + v
    out.update({
        'domain': 'T in {652 spec examples, their single-line deletions and splices with a fixed partner example, %d handcrafted '
                  'one- and two-block documents, ALPHA(SIGMA12 minus tab, %d)} after stripping trailing blank lines; tab-free; '
                  'first line not blank; x quote markers %r x list markers {+,-,*,1.,7),123.} x pad 1..4%s (list law only for T '
                  'starting with a non-space character, without whitespace-only lines, embedded first line not a thematic '
                  'break; \'>\' only when no line starts with a space); HtmlRenderer token set'
                  % (len(handcrafted()), 6 if tier == 'thorough' else 5, QM,
                     '' if tier == 'thorough' else ' (for the enumerated strings: pad 1 for every marker, pads 2..4 for - and 1. only)'),
        'rule': 'exhaustive over the listed sets (seed unused); a T is non-trivial when its parse is not a single plain paragraph',
        'exhaustive': True, 'failures_total': sum(r['failures_total'] for r in res),
        'failures_by_class': dict(sorted(by_class.items(), key=lambda kv: -kv[1])),
        'failures': keep_smallest(out['failures'], MAX_KEEP)})
    return out
