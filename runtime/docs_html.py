"""HTML side of the DOCS generator: `serialise_html(tree)` and `normalize_html(s)`.

No mistletoe imports.  `serialise_html` writes the HTML that CommonMark 0.30 (and, for tables and
strikethrough, the GFM extension) prescribes for a tree of `docs_tree.Node`s, in the layout used
by the examples of the specification.  `normalize_html` is a re-implementation of the
normalisation of the specification's test driver (test/normalize.py) with html.parser.
"""
import html as _html
import re
from html.parser import HTMLParser
from html.entities import name2codepoint
from urllib.parse import quote, unquote


# ------------------------------------------------------------------------------------------
# serialiser

def esc(s):
    """Text escaping of the reference renderer: & < > and the double quote."""
    return s.replace('&', '&amp;').replace('<', '&lt;').replace('>', '&gt;').replace('"', '&quot;')


def norm_label(label):
    return ' '.join(label.split()).casefold()


def collect_defs(tree):
    """label -> (dest, title); the first definition in document order wins."""
    defs = {}

    def walk(blocks):
        for b in blocks:
            k = b.kind
            if k == 'linkdef':
                defs.setdefault(norm_label(b.label), (b.dest, b.title))
            elif k == 'quote':
                walk(b.children)
            elif k == 'list':
                for it in b.items:
                    walk(it.children)
    walk(tree)
    return defs


def plain(inl):
    """Plain-text content of inlines, as used for the alt attribute of images."""
    out = []
    for n in inl:
        k = n.kind
        if k == 'text':
            out.append(n.s)
        elif k in ('em', 'strong', 'del', 'link', 'reflink', 'image', 'refimage'):
            out.append(plain(n.children))
        elif k == 'code':
            out.append(n.s)
        elif k == 'autolink':
            out.append(n.url)
        elif k in ('esc', 'ent'):
            out.append(n.ch)
        elif k in ('soft', 'hard'):
            out.append('\n' if k == 'soft' else '\n')
        elif k == 'rawhtml':
            pass
    return ''.join(out)


def _attr_title(title):
    return ' title="%s"' % esc(title) if title else ''


def inlines_html(inl, defs):
    out = []
    for n in inl:
        k = n.kind
        if k == 'text':
            out.append(esc(n.s))
        elif k == 'em':
            out.append('<em>%s</em>' % inlines_html(n.children, defs))
        elif k == 'strong':
            out.append('<strong>%s</strong>' % inlines_html(n.children, defs))
        elif k == 'del':
            out.append('<del>%s</del>' % inlines_html(n.children, defs))
        elif k == 'code':
            out.append('<code>%s</code>' % esc(n.s))
        elif k == 'link':
            out.append('<a href="%s"%s>%s</a>' % (esc(n.dest), _attr_title(n.title),
                                                   inlines_html(n.children, defs)))
        elif k == 'reflink':
            dest, title = defs[norm_label(n.label)]
            out.append('<a href="%s"%s>%s</a>' % (esc(dest), _attr_title(title),
                                                   inlines_html(n.children, defs)))
        elif k == 'image':
            out.append('<img src="%s" alt="%s"%s />' % (esc(n.dest), esc(plain(n.children)),
                                                        _attr_title(n.title)))
        elif k == 'refimage':
            dest, title = defs[norm_label(n.label)]
            out.append('<img src="%s" alt="%s"%s />' % (esc(dest), esc(plain(n.children)),
                                                        _attr_title(title)))
        elif k == 'autolink':
            href = ('mailto:' + n.url) if n.email else n.url
            out.append('<a href="%s">%s</a>' % (esc(href), esc(n.url)))
        elif k == 'hard':
            out.append('<br />\n')
        elif k == 'soft':
            out.append('\n')
        elif k in ('esc', 'ent'):
            out.append(esc(n.ch))
        elif k == 'rawhtml':
            out.append(n.s)
        else:
            raise ValueError(k)
    return ''.join(out)


def blocks_html(blocks, defs, tight=False):
    out = []
    for b in blocks:
        k = b.kind
        if k == 'para':
            body = inlines_html(b.inl, defs)
            out.append(body + '\n' if tight else '<p>%s</p>\n' % body)
        elif k in ('atx', 'setext'):
            out.append('<h%d>%s</h%d>\n' % (b.level, inlines_html(b.inl, defs), b.level))
        elif k == 'hr':
            out.append('<hr />\n')
        elif k == 'fence':
            words = b.info.split()
            attr = ' class="language-%s"' % esc(words[0]) if words else ''
            out.append('<pre><code%s>%s</code></pre>\n'
                       % (attr, esc(''.join(l + '\n' for l in b.lines))))
        elif k == 'icode':
            out.append('<pre><code>%s</code></pre>\n' % esc(''.join(l + '\n' for l in b.lines)))
        elif k == 'quote':
            out.append('<blockquote>\n%s</blockquote>\n' % blocks_html(b.children, defs))
        elif k == 'list':
            tag = 'ol' if b.ordered else 'ul'
            attr = ' start="%d"' % b.start if b.ordered and b.start != 1 else ''
            items = []
            for it in b.items:
                ch = [c for c in it.children if c.kind != 'linkdef']
                if not ch:
                    items.append('<li></li>\n')
                    continue
                inner = blocks_html(ch, defs, tight=b.tight)
                lead = '' if (b.tight and ch[0].kind == 'para') else '\n'
                if b.tight and ch[-1].kind == 'para':
                    inner = inner[:-1]
                items.append('<li>%s%s</li>\n' % (lead, inner))
            out.append('<%s%s>\n%s</%s>\n' % (tag, attr, ''.join(items), tag))
        elif k == 'table':
            def row(r, tag):
                cells = ''.join('<%s align="%s">%s</%s>\n'
                                % (tag, a or 'left', inlines_html(c.inl, defs), tag)
                                for c, a in zip(r.cells, b.aligns))
                return '<tr>\n%s</tr>\n' % cells
            s = '<table>\n<thead>\n%s</thead>\n' % row(b.header, 'th')
            if b.rows:
                s += '<tbody>\n%s</tbody>\n' % ''.join(row(r, 'td') for r in b.rows)
            out.append(s + '</table>\n')
        elif k == 'html':
            out.append(b.text + '\n')
        elif k == 'linkdef':
            pass
        else:
            raise ValueError(k)
    return ''.join(out)


def serialise_html(tree):
    """The HTML the specification prescribes for `tree` (written from the tree, nothing parsed)."""
    return blocks_html(tree, collect_defs(tree))


# ------------------------------------------------------------------------------------------
# normaliser (port of CommonMark's test/normalize.py)

_WS = re.compile(r'\s+')
_BLOCK_TAGS = frozenset([
    'article', 'header', 'aside', 'hgroup', 'blockquote', 'hr', 'iframe', 'body', 'li', 'map',
    'button', 'object', 'canvas', 'ol', 'output', 'caption', 'pre', 'col', 'p', 'colgroup', 'dd',
    'progress', 'div', 'section', 'table', 'td', 'dl', 'textarea', 'dt', 'tbody', 'embed',
    'tfoot', 'fieldset', 'th', 'figcaption', 'thead', 'figure', 'tr', 'footer', 'ul', 'form',
    'video', 'h1', 'h2', 'h3', 'h4', 'h5', 'h6', 'script', 'style'])


class _Norm(HTMLParser):
    def __init__(self):
        HTMLParser.__init__(self, convert_charrefs=False)
        self.last = 'starttag'
        self.in_pre = False
        self.output = ''
        self.last_tag = ''

    def handle_data(self, data):
        after_tag = self.last in ('endtag', 'starttag')
        after_block_tag = after_tag and self.last_tag in _BLOCK_TAGS
        if after_tag and self.last_tag == 'br':
            data = data.lstrip('\n')
        if not self.in_pre:
            data = _WS.sub(' ', data)
        if after_block_tag and not self.in_pre:
            if self.last == 'starttag':
                data = data.lstrip()
            elif self.last == 'endtag':
                data = data.strip()
        self.output += data
        self.last = 'data'

    def handle_endtag(self, tag):
        if tag == 'pre':
            self.in_pre = False
        elif tag in _BLOCK_TAGS:
            self.output = self.output.rstrip()
        self.output += '</' + tag + '>'
        self.last_tag = tag
        self.last = 'endtag'

    def handle_starttag(self, tag, attrs):
        if tag == 'pre':
            self.in_pre = True
        if tag in _BLOCK_TAGS:
            self.output = self.output.rstrip()
        self.output += '<' + tag
        if attrs:
            for k, v in sorted(attrs, key=lambda kv: (kv[0], kv[1] or '')):
                self.output += ' ' + k
                if v is None:
                    continue
                if k in ('href', 'src'):
                    v = quote(unquote(v), safe="/:?#[]@!$&'()*+,;=%~")
                self.output += '="' + _html.escape(v, quote=True) + '"'
        self.output += '>'
        self.last_tag = tag
        self.last = 'starttag'

    def handle_startendtag(self, tag, attrs):
        self.handle_starttag(tag, attrs)
        self.last_tag = tag
        self.last = 'endtag'

    def handle_comment(self, data):
        self.output += '<!--' + data + '-->'
        self.last = 'comment'

    def handle_decl(self, data):
        self.output += '<!' + data + '>'
        self.last = 'decl'

    def unknown_decl(self, data):
        self.output += '<!' + data + '>'
        self.last = 'decl'

    def handle_pi(self, data):
        self.output += '<?' + data + '>'
        self.last = 'pi'

    def handle_entityref(self, name):
        c = chr(name2codepoint[name]) if name in name2codepoint else None
        self._char(c, '&' + name + ';')
        self.last = 'ref'

    def handle_charref(self, name):
        try:
            c = chr(int(name[1:], 16)) if name[:1] in 'xX' else chr(int(name))
        except (ValueError, OverflowError):
            c = None
        self._char(c, '&' + name + ';')
        self.last = 'ref'

    def _char(self, c, fallback):
        if c == '<':
            self.output += '&lt;'
        elif c == '>':
            self.output += '&gt;'
        elif c == '&':
            self.output += '&amp;'
        elif c == '"':
            self.output += '&quot;'
        elif c is None:
            self.output += fallback
        else:
            self.output += c


def normalize_html(s):
    """Whitespace between block tags is insignificant, runs of whitespace outside <pre> are one
    space, attributes are sorted, `<br />` == `<br>`, entity forms are unified."""
    p = _Norm()
    p.feed(s)
    p.close()
    return p.output.strip()
