"""C01 (bounded): parse-and-render is total and terminates, for every bundled renderer/option set.

Runtime contract on  R(**opts).render(Document(x)):
    ensures  isinstance(result, str)
    raises   nothing but the admissible refusals
             - LaTeXRenderer/MathJaxRenderer RuntimeError 'Unable to find delimiter for verb macro',
               and only when every candidate delimiter occurs in some inline code of the document
             - Pygments ClassNotFound only with fail_on_unsupported_language=True
             - RecursionError only if the input is nested more than 100 levels
    time     < 10 s per (input, configuration) -- contract 'terminates'.  Measured as CPU time of the worker
             (ITIMER_PROF; <= wall clock, independent of the load of the machine), ITIMER_REAL backstop

             A time-out is a failure of contract 'terminates' with class  timeout-<phase>-in-<site>  (site: the
             function of the tree under test in which the time went, see timeout_site); more than MEM_LIMIT of
             memory is class memory-exhausted-<phase> of the same contract.

Domain (see the 'domain' string of the result): handcrafted inputs, the spec examples, emphasis strings, the two
alphabets, and three directed families, all deterministic and present for every seed --
  pumps()           ctx + u * n + tail, <= 4 KB: every Markdown-significant character and ~250 short units, n in
                    {30, 100, 1000, 4000 // len(u)}, after the context the construct needs (table header line, hard
                    break, open fence / HTML block, paragraph, container marker, inline opener) and before a failing tail
  ws_first_lines()  a whitespace-only line of >= 4 columns as the FIRST line of a block: at document start, between
                    paragraphs, after the blank lines that end an indented code block, after every leaf block, in
                    quotes / list items / nested containers, with and without a line end
  composed()        block specimens next to each other and nested in containers (incl. lazy continuation), tables with
                    short / over-long / empty rows, duplicate siblings, multi-line inline content, astral characters

Configurations (26): see CONFIGS.  Configurations that install the same token set (compared by
value at run time) share one parse per input: the document is parsed inside the context of the
family's first renderer, the other renderer objects of the family were constructed (each in its
own `with`) beforehand; renderers do not modify the tree.  Within a worker chunk the renderer objects
are reused from input to input (the documented `with R() as r:` usage) and rebuilt after every
exception; a failing case is re-run with a fresh renderer and its own parse, and reported from that.
"""
import io
import itertools
import signal
import sys
import traceback

from runtime.common import use_repo, spec_examples, SIGMA28, SIGMA12, pool_map, merge, REPO
from runtime.mtutil import keep_smallest

use_repo()
from mistletoe import Document, block_token, span_token, core_tokens, token as token_mod  # noqa: E402

LIMIT_S = 10
MAX_KEEP = 400


def _cls(path):
    mod, name = path.rsplit('.', 1)
    m = __import__(mod, fromlist=[name])
    return getattr(m, name)


def _configs():
    H = 'mistletoe.html_renderer.HtmlRenderer'
    out = []
    for dq in (False, True):
        for sq in (False, True):
            out.append(('HtmlRenderer', H, {'html_escape_double_quotes': dq, 'html_escape_single_quotes': sq}))
    out.append(('HtmlRenderer', H, {'process_html_tokens': False}))
    for nw in (False, True):
        for mll in (None, 1, 2, 3, 10, 40):
            out.append(('MarkdownRenderer', 'mistletoe.markdown_renderer.MarkdownRenderer',
                        {'normalize_whitespace': nw, 'max_line_length': mll}))
    out += [('LaTeXRenderer', 'mistletoe.latex_renderer.LaTeXRenderer', {}),
            ('AstRenderer', 'mistletoe.ast_renderer.AstRenderer', {}),
            ('TocRenderer', 'mistletoe.contrib.toc_renderer.TocRenderer', {}),
            ('GithubWikiRenderer', 'mistletoe.contrib.github_wiki.GithubWikiRenderer', {}),
            ('MathJaxRenderer', 'mistletoe.contrib.mathjax.MathJaxRenderer', {}),
            ('PygmentsRenderer', 'mistletoe.contrib.pygments_renderer.PygmentsRenderer',
             {'fail_on_unsupported_language': False}),
            ('PygmentsRenderer', 'mistletoe.contrib.pygments_renderer.PygmentsRenderer',
             {'fail_on_unsupported_language': True}),
            ('JiraRenderer', 'mistletoe.contrib.jira_renderer.JiraRenderer', {}),
            ('XWiki20Renderer', 'mistletoe.contrib.xwiki20_renderer.XWiki20Renderer', {})]
    return out


CONFIGS = _configs()
# default-option configuration of each of the 11 renderers (used for the list / file input forms)
DEFAULTS = [0, 4, 5, 17, 18, 19, 20, 21, 22, 24, 25]


def optstr(opts):
    return ','.join('%s=%r' % kv for kv in sorted(opts.items()))


def families():
    """Group configuration indexes by the token set they install (measured)."""
    fam = {}
    for i, (_, path, opts) in enumerate(CONFIGS):
        try:
            with _cls(path)(**opts):
                sig = (tuple(block_token._token_types), tuple(span_token._token_types))
        except Exception:  # noqa -- reported as a 'construct' failure by run_family
            reset_globals()
            sig = ('cannot construct', i)
        fam.setdefault(sig, []).append(i)
    return list(fam.values())


class _Timeout(BaseException):
    pass


_ARMED = [False]
_SAMPLES = []             # frames alive at 1/2 and 3/4 of the budget (see timeout_site)


def _on_alarm(signum, frame):
    # two timers are armed: CPU time (fires at 1/2, 3/4 and 1/1 of the budget) and a wall-clock backstop
    if not _ARMED[0]:
        return
    if signum == signal.SIGPROF and len(_SAMPLES) < 2:
        alive = set()
        while frame is not None:
            alive.add(frame)
            frame = frame.f_back
        _SAMPLES.append(alive)
        return
    _disarm()
    raise _Timeout()


def _disarm():
    _ARMED[0] = False
    signal.setitimer(signal.ITIMER_PROF, 0)
    signal.setitimer(signal.ITIMER_REAL, 0)


_TIMEOUTS_SEEN = [0]
_CUR_LEN = [0]            # length of the input being evaluated (set by run_family)
SHORT = 64                # inputs up to this length are 'tiny'
ABANDON_AFTER = 20        # time-outs seen by one worker before it stops evaluating inputs
WALL_FACTOR = 4           # wall-clock backstop = WALL_FACTOR x budget
MEM_LIMIT = 6 << 30       # address-space cap of a worker (a dispatch loop that never advances
                          # appends to its parse buffer for as long as it is allowed to run)


def budget():
    """LIMIT_S; once this worker has seen 3 genuine time-outs the tiny inputs (<= SHORT characters: the
    alphabet enumerations, most handcrafted inputs) get 1 s and the others 5 s (the slowest terminating
    evaluation of the pinned tree needs 1.4 s), so that a non-terminating change is reported in minutes,
    not hours.  The first three time-outs of every worker are always judged against the full budget."""
    if _TIMEOUTS_SEEN[0] < 3:
        return LIMIT_S
    return 1.0 if _CUR_LEN[0] <= SHORT else 5.0


def guarded(fn, *a):
    """-> ('ok', value) | ('exc', exception, traceback) | ('timeout', seconds allowed, traceback)
    The budget is counted in CPU time of the worker (ITIMER_PROF): the machine is shared, and CPU time never
    exceeds wall-clock time, so a time-out here is a time-out against the wall-clock budget of the property on
    any machine that is not faster; an evaluation that does not burn CPU is caught by a wall-clock backstop."""
    b = budget()
    del _SAMPLES[:]
    _ARMED[0] = True
    signal.setitimer(signal.ITIMER_REAL, WALL_FACTOR * b)
    signal.setitimer(signal.ITIMER_PROF, b / 2, b / 4)
    try:
        return ('ok', fn(*a))
    except _Timeout as e:
        _TIMEOUTS_SEEN[0] += 1
        return ('timeout', b, timeout_site(e.__traceback__))
    except BaseException as e:  # noqa
        if isinstance(e, (KeyboardInterrupt, SystemExit)):
            _disarm()
            raise
        return ('exc', e, e.__traceback__)
    finally:
        _disarm()
        del _SAMPLES[:]


def timeout_site(tb):
    """Where the time went -- a stable slug for the class of a time-out: the innermost function of the tree
    under test that was on the stack when the budget ran out AND had been on it (the same activation) since
    half of the budget.  For a regular expression that blows up this is the function that calls it
    (`ThematicBreak.start`, `find_tokens.<SpanToken>`), for a loop that does not advance it is the function
    that contains the loop (`tokenize_block`), whatever callee happened to run when the signal arrived."""
    site, fallback = None, '?'
    while tb is not None:
        fr = tb.tb_frame
        fn = fr.f_code.co_filename
        if fn.startswith(REPO) and '/mistletoe/' in fn:
            name = getattr(fr.f_code, 'co_qualname', fr.f_code.co_name)
            cls = fr.f_locals.get('cls')
            if isinstance(cls, type) and '.' in name and name.split('.')[0] != cls.__name__:
                name = cls.__name__ + '.' + name.split('.', 1)[1]      # inherited classmethod
            if fr.f_code.co_name == 'find_tokens' and isinstance(fr.f_locals.get('token_type'), type):
                name += '.' + fr.f_locals['token_type'].__name__         # the span token whose pattern is running
            fallback = name
            if len(_SAMPLES) == 2 and all(fr in smp for smp in _SAMPLES):
                site = name
        tb = tb.tb_next
    return site or fallback


def cap_memory():
    try:
        import resource
        soft, hard = resource.getrlimit(resource.RLIMIT_AS)
        if soft == resource.RLIM_INFINITY or soft > MEM_LIMIT:
            resource.setrlimit(resource.RLIMIT_AS, (MEM_LIMIT, hard))
    except Exception:  # noqa -- a platform without RLIMIT_AS: run unprotected
        pass


def reset_globals():
    """After an exception: undo what mistletoe leaves behind (no try/finally in the tree), so that
    the verdict of a case does not depend on which cases ran before it in the same worker."""
    block_token.reset_tokens()
    span_token.reset_tokens()
    if hasattr(block_token.Paragraph, 'parse_setext'):
        block_token.Paragraph.parse_setext = True
    if hasattr(core_tokens, '_code_matches'):
        core_tokens._code_matches = []
    if hasattr(token_mod, '_root_node'):
        token_mod._root_node = None


def innermost(tb):
    name = '?'
    for fr in traceback.extract_tb(tb):
        if fr.filename.startswith(REPO) and '/mistletoe/' in fr.filename:
            name = fr.name
    return name


def nesting_bound(x):
    """Upper bound on the container/inline nesting depth an input can have (textual)."""
    blk = 0
    for line in x.split('\n'):
        n = line.count('>') + sum(line.count(c) for c in '-+*') + line.count('.') + line.count(')')
        blk = max(blk, n + (len(line) - len(line.lstrip(' \t'))) // 2)
    inl = min(x.count('['), x.count(']')) + (x.count('*') + x.count('_') + x.count('~')) // 2
    return blk + inl


def tree_depth(tok, d=0):
    """Iterative (the harness must not hit the recursion limit on a tree the renderer gave up on)."""
    best, stack = d, [(tok, d)]
    while stack:
        t, k = stack.pop()
        if k > best:
            best = k
        for c in getattr(t, 'children', None) or ():
            stack.append((c, k + 1))
    return best


def inline_codes(tok, acc):
    stack = [tok]
    while stack:
        t = stack.pop()
        if type(t).__name__ == 'InlineCode':
            acc.append(t.children[0].content)
        stack.extend(getattr(t, 'children', None) or ())
    return acc


def admissible(cfg, exc, doc, x):
    name, _, opts = cfg
    tn = type(exc).__name__
    if isinstance(exc, RuntimeError) and not isinstance(exc, RecursionError) \
            and name in ('LaTeXRenderer', 'MathJaxRenderer') and 'Unable to find delimiter for verb macro' in str(exc):
        from mistletoe.latex_renderer import verb_delimiters
        return doc is not None and any(all(d in c for d in verb_delimiters) for c in inline_codes(doc, []))
    if tn == 'ClassNotFound' and name == 'PygmentsRenderer':
        return bool(opts.get('fail_on_unsupported_language'))
    if isinstance(exc, RecursionError):
        # a tree of depth d means d/2 nested containers at most (List+ListItem per level) -- be
        # generous: more than 100 *tree* levels, or (no tree) a textual bound above 100
        if doc is not None:
            return tree_depth(doc) > 100
        return nesting_bound(x) > 100
    return False


def nontrivial(doc):
    ch = doc.children
    if not ch:
        return False
    if len(ch) == 1 and type(ch[0]).__name__ == 'Paragraph' and all(type(c).__name__ == 'RawText' for c in ch[0].children):
        return False
    return True


def supply(x, form):
    if form == 'str':
        return x
    if form == 'lines':
        return x.splitlines(keepends=True)
    return io.StringIO(x)


def _make(i):
    with _class(i)(**CONFIGS[i][2]) as r:
        return r


_CLS = {}


def _class(i):
    if i not in _CLS:
        _CLS[i] = _cls(CONFIGS[i][1])
    return _CLS[i]


def build(idxs):
    """Renderer objects of one family: the variants first (each constructed in its own `with`,
    which resets the token lists on exit), the primary last -- its token set stays in force."""
    rs = [None] + [_make(i) for i in idxs[1:]]
    rs[0] = _class(idxs[0])(**CONFIGS[idxs[0]][2])
    return rs


def fresh(i, x, form):
    """The same case with nothing shared: new renderer, own parse."""
    def f():
        with _class(i)(**CONFIGS[i][2]) as r:
            doc = Document(supply(x, form))
            return doc, r.render(doc)
    g = guarded(f)
    reset_globals()
    return g


def run_family(idxs, items, seed, stats, fails, is_first):
    """All inputs of a chunk under one token-set family.  Renderer objects are reused from input to
    input (`with R() as r: for d in docs: r.render(d)`) and rebuilt after any exception; a failure
    seen with a reused renderer is re-run with nothing shared and reported from that run."""
    g = guarded(build, idxs)
    if g[0] != 'ok':
        record(fails, CONFIGS[idxs[0]], 'str', '', g, 'construct')
        reset_globals()
        return
    rs = g[1]
    try:
        for idx, x in items:
            if _TIMEOUTS_SEEN[0] >= ABANDON_AFTER:
                # non-termination is established (ABANDON_AFTER evaluations timed out in this worker): the
                # remaining inputs of the task are not run -- the violation is reported, the run must end
                stats['skipped_after_timeouts'] = stats.get('skipped_after_timeouts', 0) + 1
                continue
            _CUR_LEN[0] = len(x)
            forms = ('str', 'lines', 'file') if idx % 10 == seed % 10 else ('str',)
            if is_first:
                stats['evaluations'] += 1
            for form in forms:
                sel = [k for k, i in enumerate(idxs) if form == 'str' or i in DEFAULTS]
                if not sel:
                    continue
                dirty = False
                pg = guarded(Document, supply(x, form))
                doc = pg[1] if pg[0] == 'ok' else None
                if doc is None:
                    dirty = True
                elif is_first and form == 'str' and nontrivial(doc):
                    stats['nontrivial'] += 1
                for k in sel:
                    cfg = CONFIGS[idxs[k]]
                    stats['contracts'] += 1
                    if doc is None:
                        if pg[0] == 'exc' and admissible(cfg, pg[1], None, x):
                            stats['admitted'] += 1
                        else:
                            record(fails, cfg, form, x, pg, 'parse')
                        continue
                    rg = guarded(rs[k].render, doc)
                    if rg[0] == 'ok' and isinstance(rg[1], str):
                        continue
                    dirty = True
                    if rg[0] == 'exc' and admissible(cfg, rg[1], doc, x):
                        stats['admitted'] += 1
                        continue
                    fg = fresh(idxs[k], x, form)
                    if fg[0] == 'ok' and isinstance(fg[1][1], str):
                        record(fails, cfg, form, x, rg, 'render', only_reused=True)
                    elif fg[0] == 'ok':
                        record(fails, cfg, form, x, ('type', type(fg[1][1]).__name__), 'render')
                    elif fg[0] == 'exc' and admissible(cfg, fg[1], doc, x):
                        stats['admitted'] += 1
                    else:
                        record(fails, cfg, form, x, fg, 'render')
                if dirty:
                    reset_globals()
                    g = guarded(build, idxs)
                    if g[0] != 'ok':
                        record(fails, CONFIGS[idxs[0]], 'str', '', g, 'construct')
                        return
                    rs = g[1]
    finally:
        reset_globals()


def record(fails, cfg, form, x, g, phase, only_reused=False):
    name, path, opts = cfg
    o = optstr(opts) + ('' if form == 'str' else (',' if opts else '') + 'form=' + form)
    contract = 'c01'
    if g[0] == 'timeout':
        # the clause 'terminates': no result within the wall-clock budget.  g[1] is the time allowed: LIMIT_S,
        # or the reduced budget of a worker that had already seen 3 time-outs at LIMIT_S (see budget())
        contract = 'terminates'
        observed, klass = 'no result within %g s of CPU time' % g[1], 'timeout-%s-in-%s' % (phase, g[2])
    elif g[0] == 'type':
        observed, klass = 'render returned %s' % g[1], 'not-a-str'
    else:
        e, tb = g[1], g[2]
        observed = '%s: %s' % (type(e).__name__, str(e)[:120])
        klass = '%s-in-%s' % (type(e).__name__, innermost(tb))
        if isinstance(e, MemoryError):
            # more than MEM_LIMIT of memory for an input of a few KB: unbounded growth, i.e. the same
            # clause as a time-out (a loop that does not advance), seen through the address-space cap
            contract, klass = 'terminates', 'memory-exhausted-' + phase
    if only_reused:
        klass = 'only-with-reused-renderer/' + klass
    ctor = '%s(%s)' % (path.rsplit('.', 1)[1], ', '.join('%s=%r' % kv for kv in sorted(opts.items())))
    arg = {'str': 'x', 'lines': 'x.splitlines(keepends=True)', 'file': 'io.StringIO(x)'}[form]
    fails.append({
        'key': '%s|%s|%s|%r' % (contract, name, o, x), 'contract': contract, 'class': klass, 'phase': phase,
        'input': x, 'renderer': name, 'options': dict(opts, **({} if form == 'str' else {'form': form})),
        'observed': observed, 'expected': 'a str, no exception, < %d s' % LIMIT_S,
        'replay': 'import io, mistletoe; from %s import %s; x=%r\nwith %s as r: print(r.render(mistletoe.Document(%s)))'
                  % (path.rsplit('.', 1)[0], path.rsplit('.', 1)[1], x, ctor, arg)})


# ------------------------------------------------------------------------------------------ domain

def nasty():
    """~300 handcrafted inputs: unclosed constructs, deep nesting (<= 100 levels), long runs."""
    # non-ASCII spaces (the property's alphabet names them) at the start of lines, after blanks, in
    # continuation position of list items / quotes, after markers, and as whole lines
    nbsp = []
    for sp in ('\xa0', '\u2003', '\u3000', '\u200b', '\x0b', '\x0c', '\x1f', '\x85', '\u2028'):
        nbsp += [sp, sp + '\n', ' ' + sp + 'a', '- item\n' + sp + sp + 'continued\n', '- a\n\n' + sp + '\n- b\n',
                 '- a\n  ' + sp + 'b\n', '1. a\n ' + sp + '\n', '> q\n' + sp + 'lazy\n', '> ' + sp + '\n', '-' + sp + 'a', '#' + sp + 'h',
                 '```' + sp + '\nc\n```', '|a|\n|-|\n' + sp + '|b|', sp + '- a', sp + '> a', sp + '# a', '[a]:' + sp + '/u\n\n[a]',
                 'a' + sp + '\n===', '    ' + sp + '\n', '- > ' + sp + '\n  ' + sp + 'x', '*' + sp + 'a*', '`' + sp + '`']
    s = nbsp + ['', '\n', '\n\n\n', ' ', '\t', ' \n \n', '>', '> ', '>\n', '>>', '> >', '>\t', ' >', '   >', '    >',
         '-', '- ', '- \n', '-\n', '-\t', '+', '*', '1.', '1)', '1. ', '1.\n', '123456789.', '1234567890.', '.', ')',
         '. a', ') a', '- -', '- - -', '* * *', '- *', '- >', '> -', '> - >', '>-', '-\n-', '-\n\n-', '- \n- \n', '-\n a',
         '-\n\n a', '- \n\n  a', '|', '||', '|\n-', '|\n|-', '|-\n|-', 'a|b\n-|-', 'a|b\n-|-\n', 'a|b\n-|-\nc', '|a|\n|-|\n|',
         '|a|\n|:-:|\n|\\||', '|a\\|b|\n|-|\n|c\\\\|d|', '| `a\\|b` |\n|-|', 'a\\|b|c\n-|-', '|\\|\n|-', '\\|\n-', '|\n:-:',
         '|\n-:', '|\n:-', '| |\n|-|', '|a|b|\n|-|', '|a|\n|-|-|\n|x|y|z|', '[a]:', '[a]: ', '[a]:\n', '[a]: b', '[a]: <',
         '[a]: <b', '[a]: <>', '[a]: b "', '[a]: b "c', "[a]: b 'c", '[a]: b (c', '[a]: b\n"c', '[a]:\nb\n"c\n\nd"',
         '[a]: b "c" d', '[a]: (', '[a]: )', '[a]: \\', '[\\]: a', '[]: a', '[ ]: a', '[[a]]: b', '[a\n\nb]: c', '[a]',
         '[a][', '[a][]', '[a][b', '[a][b]', '[a](', '[a](b', '[a](<b', '[a](b "', '[a](b "c', '[a]()', '[a](<>)', '![', '![]',
         '![a](', '![a]()', '![[a]]', '![a][]', '[![a]]', '[a]: b\n[a]', '[a]: b\n![a]', '[a]: b\n[a][]', '[a]: b\n[x][a]',
         '[a]: <b c>\n[a]', '[a]: b "t"\n[a]', '<', '<a', '<a>', '</', '</a', '</a>', '<!', '<!-', '<!--', '<!-->', '<!--->',
         '<!-- a', '<?', '<? a', '<?>', '<!A', '<!a', '<![', '<![CDATA[', '<![CDATA[]]', '<a b', '<a b=', '<a b="', "<a b='",
         '<a b=c', '<a/', '<a />', '<pre', '<pre>', '<pre>\n\na', '<script>', '<style\n', '<textarea ', '<div', '<div>\n*a*',
         '<http://a', '<http://a>', '<a@b.c>', '<a@b', '<@>', '<:>', '< a>', 'a <b', '`', '``', '```', '````', '~~~', '~~~~',
         '```\n', '```a', '```a`', '~~~a`', '```\n```', '```\na', '   ```\n a\n  ```', '    ```', '`a', '`a``', '``a`', '` `', '`  `',
         '` a `', '`\n`', '`a\nb`', '\\`a`', '\\\\`a`', '`a\\`', '*', '**', '***', '_', '__', '___', '*a', 'a*', '**a', 'a**',
         '*a**', '**a*', '**a****b*', '*a**b***', '***a**b*', '**a***b*', '*a***b**', '_a__b_', '__a____b_', '**a** **b*',
         '*a *b* c*', '*_a*_', '_*a_*', '**_a**_', '*[a*]', '[*a]*', '*`a*`', '`*a`*', '~', '~~', '~~~a', '~~a', '~~a~~', '~~a~',
         '~~~~a~~~~', '*~~a*~~', '#', '##', '#######', '# ', '#\n', '# #', '# a #', '#a', '# a \\#', '####### a', ' # a', '    # a',
         '=', '==', '-\n=', 'a\n=', 'a\n-', 'a\n=-=', 'a\n= =', 'a\n ===', 'a\n    ===', '> a\n===', '> a\n---', '- a\n---', '- a\n===',
         '\\', '\\\\', '\\\n', 'a\\', 'a\\\nb', 'a  \nb', 'a  ', 'a\\\n', '&', '&;', '&#', '&#;', '&#x', '&#x;', '&#0;', '&#x0;', '&#99999999;',
         '&#x110000;', '&amp', '&amp;', '&nosuch;', '[a](&amp;)', '$', '$$', '$a', '$a$', '$$a$$', '$$a$', '$a$$', '$\n$', '$ $', '`$`$',
         '[[', '[[a', '[[a]]', '[[a|b]]', '[[a|]]', '[[|]]', '[[ | ]]', '{{', '{{a', '{{a}}', '{{a}}\n', '{{/a}}', ' {{/a}}', '{{a}}\nb\n{{/a}}',
         'é', 'éé\né', '*é*', '[é]: é\n[É]', '> é', '- é', '# é', '`é`', '\u00a0', '\u00a0a', '*\u00a0a*', '\u2028', 'a\u2028b', '\u3000', '- \u3000',
         '\x0b', '\x0c', 'a\x0cb', '\x00', 'a\x00b', '\r', 'a\rb', 'a\r\nb', '\r\n', '\ufeff# a', '\U0001f600', '１. a', '٣. a',
         '\ta', '\t\ta', ' \ta', '  \ta', '   \ta', '-\ta', '-\t\ta', '>\ta', '>\t\ta', '> \ta', '1.\ta', '- a\n\tb', '- a\n\n\tb', '\t- a', '\t> a',
         '#\ta', '```\n\ta', '\t```', 'a\tb', '*\ta*', 'a\t\nb', '\t\n', '>\t', '-\t', '- \t', '>\t>\t>', '>\t-\t>', '-\t-\t-', '-\t>\t-']
    # long runs / unclosed everything
    for c in '*_`~[]()<>!#-+=.:\\"\'&|$>':
        s.append(c * 50)
    s += ['*' * 50 + 'a' + '*' * 50, '_' * 49 + 'a' + '_' * 50, '*a' * 100, '**a' * 60, '*a_' * 60, '`' * 30 + 'a' + '`' * 29,
          '[' * 200, ']' * 200, '[' * 100 + ']' * 100, '[' * 100 + 'a' + ']' * 100, '[a]' * 100, '[' * 50 + 'a' + '](b)' * 50,
          '![' * 60 + 'a' + '](b)' * 60, '(' * 100, '[a](' + '(' * 40 + ')' * 40 + ')', '[a](' + '(' * 40 + ')' * 39 + ')',
          '<' * 100 + '>' * 100, '<a ' * 100, '<a b="' * 50, '&' * 100 + ';', '&#' + '9' * 100 + ';', '\\' * 101, '|' * 100 + '\n' + '-|' * 50,
          '|' + 'a|' * 64 + '\n|' + '-|' * 64 + '\n|' + 'b|' * 64, '$' * 101, '~~' * 51, '#' * 100, '=' * 100, 'a\n' + '=' * 100, '-' * 100,
          'a\n' + '-' * 100, '1' * 100 + '.', '9' * 9 + '. a', '9' * 10 + '. a', ' ' * 1000, ' ' * 1000 + 'a', 'a' + ' ' * 1000, 'a' * 4000,
          'a ' * 2000, 'a\n' * 1000, '\n' * 1000, '\t' * 200, '\t' * 200 + 'a', 'a *b* ' * 500, '[a]: b\n' * 200, '[a]: b\n' * 200 + '[a]' * 200]
    # deep nesting, at most 100 levels
    import string
    s += ['`' + string.punctuation.replace('`', '') + string.digits + '`', 'a `' + string.punctuation.replace('`', '') + string.digits + ' b` c',
          '`|`', '`|!`', '`|!"\'=+`', '``` nosuchlanguage\na\n```', '```python\nprint(1)\n```', '~~~ c++ x\n~~~',
          # format-significant characters in every attribute position (a template formatted twice raises on them)
          '```{r}\nx\n```', '~~~ {.py}\nx\n~~~', '```{}\n```', '```{0}\n```', '```%s\n```', '[a](/u "{x}")', '![a](/u "{0}")', '[a]({x})',
          '<http://a/{x}>', '# {x} {}', '`{x}`', '[{x}][{}]\n\n[{x}]: /u "{inner}"', '| {x} | {} |\n|---|---|\n| {0} | %s |']
    for n in (10, 50, 100):
        s += ['>' * n, '>' * n + 'a', '> ' * n + 'a', '>' * n + '\n' + '>' * (n // 2) + 'a', '> ' * n + '- a', '- ' * n + 'a', '- ' * n,
              '* ' * n + 'a', '1. ' * n + 'a', '+ ' * (n // 2) + '> ' * (n // 2) + 'a', '> - ' * (n // 2) + 'a', '>- ' * (n // 2) + '```',
              ''.join(' ' * (2 * i) + '- a\n' for i in range(n)), ''.join('>' * (i + 1) + ' a\n' for i in range(n)),
              ''.join(' ' * (2 * i) + '-\n' for i in range(n)), ''.join(' ' * (3 * i) + '1. a\n\n' for i in range(n)),
              '*' * n + 'a' + '*' * n, '_' * n + 'a' + '_' * n, '*_' * (n // 2) + 'a' + '_*' * (n // 2), '[' * n + 'a' + '](b)' * n,
              '**' * n + 'a', '~~' * (n // 2) + 'a' + '~~' * (n // 2), '*[' * (n // 2) + 'a' + '](b)*' * (n // 2)]
    seen, out = set(), []
    for x in s:
        if x not in seen:
            seen.add(x)
            out.append(x)
    return out


# common.SIGMA28 lists '>' twice: 27 distinct characters (duplicates would only repeat inputs)
SIG = {'SIGMA28': list(dict.fromkeys(SIGMA28)), 'SIGMA12': list(dict.fromkeys(SIGMA12))}


def emphasis_strings():
    """Delimiter-run stress: ALPHA({*, a}, 10) ∪ ALPHA({*, _, a, space}, 7)."""
    return [''.join(t) for k in range(11) for t in itertools.product('*a', repeat=k)] + \
           [''.join(t) for k in range(8) for t in itertools.product('*_a ', repeat=k)]


# ---- pump inputs (termination under pathological but small inputs) -----------------------------------
# ctx + u * n + tail: a unit u repeated n times, after a context that makes the construct reachable and
# before a short tail that makes the match fail late.  A regular expression with exponential backtracking
# blows up at 25-40 repetitions, a quadratic loop at a few thousand; every input is <= MAX_PUMP characters.
MAX_PUMP = 4000
PUMP_CHARS = list("*_`[]()<>!#-+=.:\\\"'&|~$1{}/?%@;,^") + ['\t', ' ', 'a', 'é', '\xa0', '\U0001f600']
PUMP_UNITS = [
    # table delimiter rows / rows
    '|-', '-|', ':-', '-:', ':-:', '|:-:', '-: ', '| ', ' |', '- |', '--|', '|:', '\\|', 'a|', '|a',
    # links, images, references
    '](', '[]', '[](', '[a]', '[a](', '](b)', '[a][', '![', '[[', ']]', '[a](b)', '![a](', '[ ', '] ', '(a', '((', '()', '(<',
    '"a', '("', "('", ' "', 'a|b', '[[a|',
    # raw HTML, autolinks
    '<a ', '<a>', '</a>', '</', '<a b=', '<a b="', "<a b='c' ", ' b=c', ' b', '<!--', '<!', '<?', '-->', '--', '<![CDATA[', ']]>',
    'a:', ':a', ':/', 'http://', '<a:', 'a@', '@a', 'a.', '.a', 'a-', '-a', '<a@b.', 'a.b',
    # character references
    '&#', '&#x', '&a', '&amp;', '&#1;', '&;', '#1', 'a;',
    # code spans, escapes, math, macros, strikethrough
    '``', '```', '` ', '`a', '`` `', 'a`', '` `', '\\\\', '\\*', '\\`', '\\[', '\\]', '\\a', '\\ ', '$$', '$a', '$a$', '\\$', '$ ',
    '{{', '{{a', '{{a}}', '}}', '{{/a}}', '{{a ', '~~', '~~a', '~ ', '~~~', 'a~~',
    # emphasis
    '*a', '*a ', 'a*', '**a', '_a', '*_', '**', '__', '***', ' *', '* ', '_ ', ' _', 'a_', '_a_', '*a*', '**a**', '*a**', '_*', 'a *', '* a',
    # containers and leaf-block markers inside one line
    '> ', '> > ', '>\t', ' >', '>-', '- ', '+ ', '1. ', '1) ', '-\t', '- - ', '- > ', '> - ', '1.', '1)', '10', '  ', ' \t', '\t ',
    '#a', '# ', ' #', '##', '= ', '=-', '- =', '-=', '_ _', '* * ', '- -', 'a ', ' a', 'é ', '\xa0 ', ' \xa0', ' ', '́']
PUMP_LINES = [
    '\n', ' \n', '    \n', '\t\n', '   \n', '>\n', '> \n', '>     \n', '>\t\n', '-\n', '- \n', '-     \n', '- a\n', '1.\n', '1. a\n', 'a\n',
    'a\\\n', 'a  \n', '\\\n', '  \n', '[a]: b\n', '[a]:\n', '[a]: b "\n', '[a]: <\n', '"\n', '[a]\n', '|a|\n', '|-|\n', '|\n', '-|-\n',
    '# a\n', '#\n', '=\n', '===\n', 'a\n=\n', 'a\n-\n', '---\n', '* * *\n', '```\n', '~~~\n', '```a\n', '<div>\n', '</div>\n', '<a\n',
    '</a\n', '<!--\n', '-->\n', '<pre>\n', '<?\n', '*a\n', '*\n', '_\n', 'a*\n', '[a\n', '[\n', ']\n', '](\n', '(\n', '`\n', '`a\n',
    '``\n', '$\n', '$a\n', '{{a}}\n', '{{a\n', '{{/a}}\n', '~~\n', '~~a\n', '&\n', '<\n', '    a\n', '\ta\n', '  - a\n', '> a\n', '> - a\n',
    '- > a\n', '>\n\n', '- a\n\n', 'a\n\n', '    a\n\n', '> a\nb\n', '- a\nb\n', 'b=c\n', ' b="\n']
PUMP_TAILS = ['', 'x', '!', '|', '\n', '+-|']
# contexts: what stands before the pump.  One line before it (table header, hard break, open fence, paragraph
# to continue / underline, open HTML block), a container marker, or the opening of an inline construct.
CTX_LINE = ['', 'a\n', '|a|b|\n', '|a|b|\n|', 'a\\\n', '```\n', '<div>\n', '> a\n', '- a\n', '- a\n\n  ', '[a]: b\n', '    a\n\n']
CTX_MARK = ['> ', '- ', '1. ', '    ', '# ', '|', 'a ']
CTX_OPEN = ['[a]: ', '[a]: b "', '[a]: <', '[a](', '[a](b "', '[a](<', '[', '![', '[a][', '[[', '[[a|', '<a ', '<a b="', '<a b=', '</a', '<!--',
            '<?', '<![CDATA[', '<http://', '<a@', '<a@b.', '`', '``', '*', '**', '_', '~~', '$', '$$', '{{a', '{{a}}', '&', '&#', '&#x', '\\',
            '<', '<pre>', '~~~', '```']


def pumps():
    """The pump family, deterministic:  ctx + u * n + tail.
    n = 30 : every unit x (line and marker contexts x 5 tails  +  inline-opener contexts x tails 'x', newline)
    n = 100: every unit x (line and marker contexts x tails 'x', '+-|'  +  inline-opener contexts x tail 'x')
    large n (the largest n with len(u) * n <= MAX_PUMP; for one-character units also n = 1000):
             every unit x 6 (context, tail) pairs: bare, failing tail, paragraph continuation, table
             delimiter row after a header line, in a quote, in a list item
    and pumps of two different units in a row (u * n + v * n: adjacent quantifiers over two classes)."""
    units = PUMP_CHARS + PUMP_UNITS + PUMP_LINES
    out = []
    for u in units:
        body = u * 30
        for c in CTX_LINE + CTX_MARK:
            for t in ('x', '!', '|', '\n', '+-|'):
                out.append(c + body + t)
        for c in CTX_OPEN:
            out += [c + body + 'x', c + body + '\n']
        body = u * 100
        for c in CTX_LINE + CTX_MARK:
            out += [c + body + 'x', c + body + '+-|']
        for c in CTX_OPEN:
            out.append(c + body + 'x')
        for n in sorted({MAX_PUMP // len(u)} | ({1000} if len(u) == 1 else set())):
            body = u * n
            for c, t in (('', ''), ('', 'x'), ('a\n', 'x'), ('|a|b|\n|', '+-|'), ('> ', 'x'), ('- ', '\n')):
                out.append(c + body + t)
    for a, b in (('-', ':'), ('-', ' '), (' ', '-'), ('|', '-'), ('*', '_'), ('[', ']'), ('(', ')'), ('<', '>'), ('`', ' '), (' ', '`'),
                 ('\\', '|'), ('\\', '`'), ('\\', '\\\\'), (' ', '\t'), ('#', ' '), (' ', '#'), ('=', ' '), ('>', ' '), ('&', ';'), ('$', '\\'),
                 ('~', 'a'), ('{', '}'), ('"', '\\"'), ("'", ' '), ('(', '\\)'), ('a', ' '), ('\n', ' '), (' \n', '>'), ('>\n', '-\n')):
        for n in (30, 100):
            for c in ('', '|a|b|\n|', 'a\n', '[a](', '[a]: ', '<a ', '`', '# ', '> ', '- '):
                for t in ('', 'x', '\n', '+-|'):
                    out.append(c + a * n + b * n + t)
        n = MAX_PUMP // (2 * max(len(a), len(b)))
        for c, t in (('', 'x'), ('|a|b|\n|', '+-|'), ('[a](', 'x')):
            out.append(c + a * n + b * n + t)
    return out


# ---- whitespace-only lines that look like indented code, as the FIRST line of a block ------------------
WS_LINES = ['    ', '\t', '     ', '  \t', '    \t ', '\t\t']
WS_PRE = [[], ['a'], ['a', ''], ['    code'], ['    code', ''], ['    code', '', ''], ['\tcode', '', '', ''], ['# h'], ['---'], ['```', 'c', '```'],
          ['<div>', ''], ['<div>'], ['|a|', '|-|'], ['[a]: b'], ['a', '==='], ['- x', ''], ['- x'], ['> x', ''], ['> x'], [''], ['', ''], ['   ']]
WS_POST = [None, [], ['b'], ['', 'b'], ['    more'], ['', '', '\tmore'], ['\t', '', 'b'], ['- y'], ['===']]
# (marker of the first line, prefix of the following lines)
WS_CONTAINERS = [('', ''), ('> ', '> '), ('>', '>'), ('- ', '  '), ('1. ', '   '), ('> > ', '> > '), ('> - ', '>   '), ('- > ', '  > '),
                 ('- - ', '    '), ('> ', ''), ('- ', '')]


def ws_first_lines():
    """pre-lines, one whitespace-only line of >= 4 columns, post-lines; every line behind the prefix of a
    container (the last two containers: only the first line carries the marker -- lazy / ended container).
    post None: the whitespace-only line is the last one and has no line end."""
    out = []
    for first, rest in WS_CONTAINERS:
        for pre in WS_PRE:
            for w in WS_LINES:
                for post in WS_POST:
                    lines = pre + [w] + (post or [])
                    txt = ''.join((first if i == 0 else rest) + ln + '\n' for i, ln in enumerate(lines))
                    out.append(txt[:-1] if post is None else txt)
    return out


# ---- documents composed of block specimens (every block construct next to / inside every other) ---------
def composed():
    from runtime.mtutil import BLOCKS
    extra = ['| a | b |\n|---|---|\n| 1 |\n| 1 | 2 | 3 |\n||\n', '| \U0001f600 | é |\n|:-|-:|\n| \U0001f600\U0001f600 | `a\\|b` |', '|a|\n|-|\n|a|\n|a|',
             '[^1]: note\n\n[^1]', '[a]: /u\n[a]: /v\n[A]: /w\n\n[a] [a] [A]', '*multi\nline* **emphasis\nover** `code\nspan` [link\ntext](u\n"t\nt")',
             '<span\na="b">x</span\n>', '\\\nx', 'a\\\nb\\\n', '- [ ] task\n- [x] done', '1. a\n1. a\n1. a', '# h\n# h\n# h', '<!---->', '``` \n```', '#\n##\n###',
             '- \n- \n-', '>\n>\n>', '* a\n+ b\n- c\n1. d\n1) e', '***\n---\n___', '&amp; &#35; &#x22; &nosuch; &#0;', '$a$ $$b$$ \\$c$', '{{a}}\nb\n{{/a}}\n',
             '[[w]] [[w|t]]', '~~s~~ ~~s\nt~~', 'é́‍\U0001f468‍\U0001f469 ‮ rtl', 'a' * 90 + ' ' + 'b' * 90, ('word ' * 30).strip(),
             # renderer-specific corners: headings with inline content and jumping levels (Toc), characters that are special
             # in LaTeX / XWiki / Jira output, info strings (Pygments), mixed nested lists, inline content in table cells
             '# *a* `b` [c](d) <i>e</i> ![f](g)\n### h3\n## h2 ##\n###### h6\n# h1\nh1\n==\nh2\n--',
             'a # $ % & ~ _ ^ \\ { } < > | " \' b [a%b](c%20d#e_f) ![a_b](c&d "e$f") **{x}** //y// (% z %)',
             '```python\ndef f(): pass\n```\n```c++\nint x;\n```\n```\n\n```\n~~~ nosuch lang\n~~~',
             '- a\n  1. b\n     - c\n\n       d\n  2. e\n- f\n\n10) g\n11) h', '| *a* | `b\\|c` | [d](e) |\n|:--|:-:|--:|\n| ![i](s) | <b>x</b> | ~~s~~ $m$ |',
             '<script>\nx\n\ny</script>\nz', '<!DOCTYPE html>\n<![CDATA[\nx\n]]>\n<?php\nx\n?>\n</div>\n*a*', '<http://a.b/c?d=e&f> <a@b.c> http://x',
             '[a][b] [b][] [b] ![a][b]\n\n[b]: <u v> (t\n)', 'a<br/>b  \nc\\\nd', '    \n\ta\n    \n    b\n\t\n']
    B = BLOCKS + extra
    out = []
    for i, a in enumerate(B):
        for j, b in enumerate(B):
            out.append(a + '\n' + b)
            if (i + j) % 3 == 0:
                out.append(a + '\n\n' + b + '\n')
    for a in B:
        ls = a.split('\n')
        for first, rest in (('> ', '> '), ('> ', ''), ('>', '>'), ('- ', '  '), ('- ', ''), ('1. ', '   '), ('> - ', '>   '), ('- > ', '  > '),
                            ('- - ', '    '), ('> > ', '> '), ('  - ', '    '), ('-\t', '\t'), ('   ', '   '), ('    ', '    ')):
            out.append('\n'.join((first if i == 0 else rest) + ln for i, ln in enumerate(ls)))
            out.append('x\n' + '\n'.join((first if i == 0 else rest) + ln for i, ln in enumerate(ls)) + '\ny')
        for ch in ('\U0001f600', 'é', '\xa0', '　'):
            out.append(a.replace('a', ch).replace('foo', ch * 2))
    return out


_FIXED_CACHE = []


def fixed_inputs():
    """(cheap list, pump list): the handcrafted inputs, spec examples, emphasis strings, whitespace-line and
    composed documents; and the pumps.  Without repetition, in a fixed order."""
    if not _FIXED_CACHE:
        seen = set()
        for src in (nasty() + [e['markdown'] for e in spec_examples()] + emphasis_strings() + ws_first_lines() + composed(), pumps()):
            lst = []
            for x in src:
                if x not in seen:
                    seen.add(x)
                    lst.append(x)
            _FIXED_CACHE.append(lst)
    return _FIXED_CACHE


def bounds(tier):
    """(max length over SIGMA28, max length over SIGMA12 enumerated completely, extra sliced length)"""
    return (4, 6, 7) if tier == 'thorough' else (3, 5, None)


FIXED_SLICES = (96, 480)     # work units for the cheap fixed list / the pump list


def tasks(tier, seed):
    """Work units: ('fixed', list number, slice, modulus) or ('alpha', sigma name, length, prefix, modulus).
    Strings over SIGMA12 not longer than the SIGMA28 bound are skipped (SIGMA12 is a subset)."""
    n28, n12, extra = bounds(tier)
    out = [('fixed', k, i, m) for k, m in enumerate(FIXED_SLICES) for i in range(m)]
    for name, lo, hi, tail, mod in (('SIGMA28', 0, n28, 2, 1), ('SIGMA12', n28 + 1, n12, 3, 1),
                                    ('SIGMA12', extra or 1, extra or 0, 3, 3)):
        for L in range(lo, hi + 1):
            p = max(0, L - (tail if L > 5 or name == 'SIGMA28' else 2))
            for pre in itertools.product(SIG[name], repeat=p):
                out.append(('alpha', name, L, ''.join(pre), mod))
    # spread the expensive regions (tab-led strings are code blocks: Pygments guesses a lexer; large pumps)
    return [t for i in range(64) for t in out[i::64]]


def task_items(task, seed, fixed_set):
    if task[0] == 'fixed':
        _, k, i, m = task
        lists = fixed_inputs()
        base = sum(len(lst) for lst in lists[:k])
        return [(base + j, lists[k][j]) for j in range(i, len(lists[k]), m)]
    _, name, L, pre, mod = task
    sigma = SIG[name]
    rank0 = 0
    for c in pre:
        rank0 = rank0 * len(sigma) + sigma.index(c)
    rank0 *= len(sigma) ** (L - len(pre))
    items = []
    for j, t in enumerate(itertools.product(sigma, repeat=L - len(pre))):
        rank = rank0 + j
        if mod > 1 and rank % mod != seed % mod:
            continue
        x = pre + ''.join(t)
        if x not in fixed_set:
            items.append((rank, x))
    return items


_FAMS = None
_FIXED = None


def tame_pygments():
    """Cost control inside the trusted library only (Pygments is assumed total, DESIGN section 5 C01):
    `guess_lexer` rescans the installed entry points and scores ~500 lexers on every call (7-40 ms);
    it is a pure function of the code text, so it is memoised (exceptions are not cached)."""
    import functools
    try:
        import mistletoe.contrib.pygments_renderer as pr
    except Exception:
        return
    g = getattr(pr, 'guess_lexer', None)
    if g is not None and not hasattr(g, 'cache_info'):
        pr.guess_lexer = functools.lru_cache(maxsize=200000)(g)


def work(arg):
    global _FAMS, _FIXED
    signal.signal(signal.SIGALRM, _on_alarm)
    signal.signal(signal.SIGPROF, _on_alarm)
    sys.setrecursionlimit(1000)
    if _FAMS is None:
        _FAMS = families()
        _FIXED = set(x for lst in fixed_inputs() for x in lst if len(x) <= 8)
        tame_pygments()
        cap_memory()
    seed, task = arg
    items = task_items(task, seed, _FIXED)
    stats = {'evaluations': 0, 'contracts': 0, 'nontrivial': 0, 'admitted': 0}
    fails = []
    for n, fam in enumerate(_FAMS):
        run_family(fam, items, seed, stats, fails, n == 0)
    by_class = {}
    for f in fails:
        for k in (f['class'], f['renderer'] + ':' + f['class']):
            by_class[k] = by_class.get(k, 0) + 1
    return {'evaluations': stats['evaluations'], 'contract_evaluations': stats['contracts'],
            'skipped': stats.get('skipped_after_timeouts', 0),
            'distinct_nontrivial': stats['nontrivial'], 'admitted': stats['admitted'],
            'failures': keep_smallest(fails, MAX_KEEP), 'failures_total': len(fails), 'by_class': by_class,
            'failing_inputs': len({f['input'] for f in fails}),
            'samples': [items[len(items) // 2][1]] if items and task[0] == 'alpha' and len(task[3]) % 2 else []}


def run(tier, seed, workers):
    fixed_inputs()      # built once, inherited by the forked workers
    ts = tasks(tier, seed)
    res = pool_map(work, [(seed, t) for t in ts], workers)
    out = merge(res)
    by_class = {}
    for r in res:
        for k, v in r['by_class'].items():
            by_class[k] = by_class.get(k, 0) + v
    fails = out['failures']
    n28, n12, extra = bounds(tier)
    out.update({
        'domain': '%d handcrafted ∪ 652 spec examples ∪ ALPHA({*,a},10) ∪ ALPHA({*,_,a,space},7) ∪ %d documents with a whitespace-only '
                  'line of >= 4 columns as first line of a block (%d preceding contexts x %d lines x %d continuations x %d containers) ∪ '
                  '%d documents composed of block specimens (all ordered pairs on adjacent lines, a third of them also separated by a blank line, each nested in 14 container prefixes incl. lazy '
                  'continuation, non-ASCII substitutions) ∪ %d pump inputs ctx + u*n + tail (%d units u, n in {30, 100, 1000, '
                  '%d // len(u)}, %d contexts, tails %r; all <= %d characters) ∪ ALPHA(SIGMA28 [27 distinct characters],%d) ∪ '
                  'ALPHA(SIGMA12,%d)%s (%d distinct inputs) as str; '
                  'those with enumeration rank %% 10 == %d also as list of lines and io.StringIO (11 default-option '
                  'renderers); x %d configurations of the 11 bundled renderers (Html x 4 quote-escaping combos, '
                  'Html(process_html_tokens=False), Markdown x normalize_whitespace x max_line_length {None,1,2,3,10,40}, '
                  'LaTeX, Ast, Toc, GithubWiki, MathJax, Pygments x fail_on_unsupported_language, Jira, XWiki20) in %d '
                  'token-set families; nesting <= 100 levels; limit %d s per (input, configuration)'
                  % (len(nasty()), len(ws_first_lines()), len(WS_PRE), len(WS_LINES), len(WS_POST), len(WS_CONTAINERS),
                     len(composed()), len(fixed_inputs()[1]), len(PUMP_CHARS + PUMP_UNITS + PUMP_LINES), MAX_PUMP,
                     len(CTX_LINE + CTX_MARK + CTX_OPEN), PUMP_TAILS, max(map(len, fixed_inputs()[1])), n28, n12,
                     ' ∪ {x in SIGMA12^%d : rank(x) %% 3 == %d}' % (extra, seed % 3) if extra else '',
                     out['evaluations'], seed % 10, len(CONFIGS), len(families()), LIMIT_S),
        'rule': 'exhaustive enumeration of the alphabets + fixed lists; a case is non-trivial when its parse (Html token '
                'set) is not empty and not a single paragraph of plain text; renderer objects are reused within a work unit '
                'and rebuilt after any exception, a failing case is re-run with nothing shared; pygments.lexers.guess_lexer '
                '(trusted library, pure) is memoised; a worker that has seen 3 time-outs at the full budget judges the '
                'following inputs against 1 s (<= %d characters) / 3 s, and stops evaluating after %d time-outs '
                '(evaluations_skipped_after_timeouts counts input x family)' % (SHORT, ABANDON_AFTER),
        'evaluations_skipped_after_timeouts': sum(r.get('skipped', 0) for r in res),
        'exhaustive': True, 'admitted_refusals': sum(r['admitted'] for r in res),
        'failures_total': sum(r['failures_total'] for r in res),
        'failures_by_class': dict(sorted(((k, v) for k, v in by_class.items() if ':' not in k), key=lambda kv: -kv[1])),
        'failures_by_renderer_and_class': dict(sorted(((k, v) for k, v in by_class.items() if ':' in k), key=lambda kv: -kv[1])),
        'failing_inputs_distinct': sum(r['failing_inputs'] for r in res),
        'failures': keep_smallest(fails, MAX_KEEP)})
    return out
