#!/usr/bin/env python3
"""Developer tool: after `./check --selftest <round>` fill the meta.json files of that round with the
first-run result (from seeded/SELFTEST.json), what the change needs in order to manifest (taken from
the sub-agent's notes, seeded/<id>/agent_notes.md) and what was run.

usage: tools_seedmeta.py r7 <commit the selftest ran on>
"""
import glob
import json
import os
import re
import sys


def main():
    tag, commit = sys.argv[1], sys.argv[2]
    st = json.load(open('/verif/seeded/SELFTEST.json'))
    for d in sorted(glob.glob('/verif/seeded/*-%s-*' % tag)):
        sid = os.path.basename(d)
        n = int(sid.split('-')[-1])
        prop = sid.split('-')[0]
        notes = open(d + '/agent_notes.md').read() if os.path.exists(d + '/agent_notes.md') else ''
        secs = re.split(r'\n#+ ', notes)
        sec = [s for s in secs if re.match(r'.*\b(change|seed|patch)[ -]?%d\b' % n, s.split('\n')[0], re.I)]
        need = ''
        if sec:
            m = re.search(r'((?:What is needed to manifest|Needs to manifest|What it needs(?: in order)? to manifest|'
                          r'needed (?:for it )?to manifest|Trigger|What exactly is needed)[^\n]*?[:\n].*?)(?:\n\n[A-Z#*]|\Z)',
                          sec[0], re.S | re.I)
            if m:
                need = ' '.join(m.group(1).split())
        need = re.sub(r'^\W*(What is needed to manifest|Needs to manifest|What it needs(?: in order)? to manifest|Trigger)\W*',
                      '', need, flags=re.I)
        meta = json.load(open(d + '/meta.json'))
        r = st.get(sid)
        meta['breaks'] = prop
        meta['round'] = int(tag[1:])
        if need or 'needs_to_manifest' not in meta:
            meta['needs_to_manifest'] = need[:900]
        if r is not None:
            meta['checks'] = {prop: {'exit': r['exit'], 'violation_lines_n': r['violation_lines'],
                                     'obligations': r['obligations'], 'bounded_classes': r['bounded_classes']}}
            meta['detected'] = r['exit'] == 1
            meta['detected_by_deductive'] = bool(r['obligations'])
            meta['detected_by_bounded'] = r['exit'] == 1 and r['violation_lines'] > len(r['obligations'])
        meta['what_was_run'] = (
            'tools_seed.py --confirm-only: patch applied to a scratch worktree of /repo HEAD, pytest (333 tests) with the '
            'patch, demo.py without and with the patch; then ./check --selftest %s (commit %s): ./check %s --tier quick '
            'against a scratch copy of /repo HEAD carrying the patch (VERIF_REPO); nothing was committed to /repo'
            % (tag, commit, prop))
        json.dump(meta, open(d + '/meta.json', 'w'), indent=1)
        print(sid, meta.get('detected'), (meta.get('needs_to_manifest') or '')[:80])


if __name__ == '__main__':
    main()
